package main

import (
	"context"
	"fmt"

	ipfslog "berty.tech/go-ipfs-log"
	"verifharness/fakeipfs"
	"verifharness/world"
)

func main() {
	ctx := context.Background()
	for _, codec := range []world.Codec{world.CodecDefault, world.CodecLinkKey, world.CodecPB} {
		st := fakeipfs.NewStore()
		l, err := world.NewLog(st.API(), 0, "A", world.OrderLWW, world.IO(codec, 0), nil)
		if err != nil {
			panic(err)
		}
		l.Append(ctx, []byte("hello"), nil)
		e, err := l.Append(ctx, []byte{0xff, 0x01}, &ipfslog.AppendOptions{PointerCount: 4})
		if err != nil {
			panic(err)
		}
		raw, _ := st.Raw(e.GetHash())
		fmt.Printf("%s %s\n%x\n%q\n\n", codec, e.GetHash(), raw, raw)
		m, err := l.ToMultihash(ctx)
		raw, _ = st.Raw(m)
		fmt.Printf("manifest %s %v\n%x\n%q\n\n", m, err, raw, raw)
	}
}
