package main

import (
	"context"
	"fmt"

	"github.com/ipfs/go-cid"
	mh "github.com/multiformats/go-multihash"

	"berty.tech/go-ipfs-log/entry"
	"verifharness/fakeipfs"
	"verifharness/world"
)

func c(i int) cid.Cid {
	x, _ := cid.V1Builder{Codec: cid.DagCBOR, MhType: mh.SHA2_256}.Sum([]byte(fmt.Sprintf("verif-link-%d", i)))
	return x
}

func main() {
	ctx := context.Background()
	io := world.IO(world.CodecLinkKey, 0)
	st := fakeipfs.NewStore()
	id := world.Identity(0)
	mk := func(refs []cid.Cid) {
		e, err := entry.CreateEntryWithIO(ctx, st.API(), id, &entry.Entry{LogID: "-", Payload: []byte{}, Next: []cid.Cid{c(0)}, Refs: refs, Clock: entry.NewLamportClock(id.PublicKey, 0)}, nil, io)
		if err != nil {
			panic(err)
		}
		d, err := entry.FromMultihashWithIO(ctx, st.API(), e.GetHash(), id.Provider, io)
		fmt.Println("created refs", e.GetRefs(), "read back refs", d.GetRefs(), "next", d.GetNext(), err, e.GetHash())
	}
	mk(nil)
	mk([]cid.Cid{c(6)})
	mk([]cid.Cid{c(6), c(7)})
}
