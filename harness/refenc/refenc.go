// Package refenc is the harness's own statement of the entry / manifest wire
// format of the default codec: canonical DAG-CBOR (RFC 7049 key order, shortest
// integer forms, tag 42 links). It shares no code with the library or refmt.
package refenc

import (
	"encoding/hex"
	"sort"

	"github.com/ipfs/go-cid"
	mh "github.com/multiformats/go-multihash"
)

type W struct{ B []byte }

func (w *W) head(major byte, n uint64) {
	switch {
	case n < 24:
		w.B = append(w.B, major<<5|byte(n))
	case n < 1<<8:
		w.B = append(w.B, major<<5|24, byte(n))
	case n < 1<<16:
		w.B = append(w.B, major<<5|25, byte(n>>8), byte(n))
	case n < 1<<32:
		w.B = append(w.B, major<<5|26, byte(n>>24), byte(n>>16), byte(n>>8), byte(n))
	default:
		w.B = append(w.B, major<<5|27, byte(n>>56), byte(n>>48), byte(n>>40), byte(n>>32), byte(n>>24), byte(n>>16), byte(n>>8), byte(n))
	}
}

func (w *W) Int(i int64) {
	if i >= 0 {
		w.head(0, uint64(i))
	} else {
		w.head(1, uint64(-1-i))
	}
}
func (w *W) Uint(u uint64)   { w.head(0, u) }
func (w *W) NegRaw(u uint64) { w.head(1, u) } // encodes -1-u
func (w *W) Text(s string)   { w.head(3, uint64(len(s))); w.B = append(w.B, s...) }
func (w *W) Bytes(b []byte)  { w.head(2, uint64(len(b))); w.B = append(w.B, b...) }
func (w *W) Array(n int)     { w.head(4, uint64(n)) }
func (w *W) Map(n int)       { w.head(5, uint64(n)) }
func (w *W) Null()           { w.B = append(w.B, 0xf6) }
func (w *W) Link(c cid.Cid) {
	w.head(6, 42)
	w.Bytes(append([]byte{0}, c.Bytes()...))
}

// field of a map: key + writer of the value.
type Field struct {
	K string
	V func(*W)
}

// MapOf writes the fields in canonical order (length first, then bytewise).
func (w *W) MapOf(fs []Field) {
	sort.SliceStable(fs, func(i, j int) bool {
		if len(fs[i].K) != len(fs[j].K) {
			return len(fs[i].K) < len(fs[j].K)
		}
		return fs[i].K < fs[j].K
	})
	w.Map(len(fs))
	for _, f := range fs {
		w.Text(f.K)
		f.V(w)
	}
}

type Identity struct {
	ID        string
	Type      string
	PublicKey []byte
	SigID     []byte
	SigPK     []byte
}

type Entry struct {
	V        uint64
	LogID    string
	Key, Sig []byte
	Next     []cid.Cid
	Refs     []cid.Cid
	ClockID  []byte
	Time     int
	Payload  []byte
	Identity *Identity
	EncLinks string // link-key codec only
	EncNonce string
}

func links(cs []cid.Cid) func(*W) {
	return func(w *W) {
		w.Array(len(cs))
		for _, c := range cs {
			w.Link(c)
		}
	}
}

func text(s string) func(*W) { return func(w *W) { w.Text(s) } }
func hexs(b []byte) func(*W) { return func(w *W) { w.Text(hex.EncodeToString(b)) } }

// EncodeEntry returns the canonical block bytes of a v2 entry.
func EncodeEntry(e Entry) []byte {
	fs := []Field{
		{"v", func(w *W) { w.Int(int64(e.V)) }},
		{"id", text(e.LogID)},
		{"key", hexs(e.Key)},
		{"sig", hexs(e.Sig)},
		{"hash", func(w *W) { w.Null() }},
		{"next", links(e.Next)},
		{"refs", links(e.Refs)},
		{"clock", func(w *W) {
			w.MapOf([]Field{{"id", hexs(e.ClockID)}, {"time", func(w *W) { w.Int(int64(e.Time)) }}})
		}},
		{"payload", text(string(e.Payload))},
		{"identity", func(w *W) {
			if e.Identity == nil {
				w.Null()
				return
			}
			id := e.Identity
			w.MapOf([]Field{
				{"id", text(id.ID)},
				{"type", text(id.Type)},
				{"publicKey", hexs(id.PublicKey)},
				{"signatures", func(w *W) {
					w.MapOf([]Field{{"id", hexs(id.SigID)}, {"publicKey", hexs(id.SigPK)}})
				}},
			})
		}},
	}
	if e.EncLinks != "" || e.EncNonce != "" {
		fs = append(fs, Field{"enc_links", text(e.EncLinks)}, Field{"enc_links_nonce", text(e.EncNonce)})
	}
	w := &W{}
	w.MapOf(fs)
	return w.B
}

// EncodeManifest returns the canonical block bytes of a log manifest.
func EncodeManifest(id string, heads []cid.Cid) []byte {
	w := &W{}
	w.MapOf([]Field{{"id", text(id)}, {"heads", links(heads)}})
	return w.B
}

// CidOf is the CIDv1 / dag-cbor / sha2-256 identifier of a block.
func CidOf(block []byte) cid.Cid {
	c, err := cid.V1Builder{Codec: cid.DagCBOR, MhType: mh.SHA2_256}.Sum(block)
	if err != nil {
		panic(err)
	}
	return c
}
