// Package loadsim runs a load (fetch) under a gated store: every block read
// parks inside the store and a controller releases outstanding reads in an
// order taken from a generated schedule. Any order it produces is an order a
// real network could produce.
package loadsim

import (
	"bytes"
	"runtime/pprof"
	"strings"
	"time"

	"github.com/ipfs/go-cid"

	"verifharness/fakeipfs"
)

type Result struct {
	Done         bool     // fn returned
	Released     []string // realised completion order (CID strings)
	OutOfOrder   int      // releases that left an older request waiting
	MaxPending   int
	Hang         bool   // fn did not return although nothing is outstanding and the store is quiet
	HangDump     string // goroutine dump taken when Hang was decided
	Inconclusive string
	Elapsed      time.Duration
}

type Options struct {
	Schedule  []int               // choice list, consumed cyclically
	Order     []string            // replay: enforce this completion order while possible
	Settle    time.Duration       // quiet period before a release (default 300µs)
	HangAfter time.Duration       // quiet period with nothing outstanding before a hang is declared (default 3s)
	HardLimit time.Duration       // give up (inconclusive) after this long (default 60s)
	Slow      func(c string) bool // blocks that complete last
	OnQuiet   func() bool         // called when the store is quiet and nothing is pending; return true if it did something (e.g. cancelled a context)
}

// Run executes fn under the gate.
func Run(store *fakeipfs.Store, opt Options, fn func()) Result {
	if opt.Settle == 0 {
		opt.Settle = 300 * time.Microsecond
	}
	if opt.HangAfter == 0 {
		opt.HangAfter = 3 * time.Second
	}
	if opt.HardLimit == 0 {
		opt.HardLimit = 60 * time.Second
	}
	if len(opt.Schedule) == 0 {
		opt.Schedule = []int{0}
	}
	gate := fakeipfs.NewGate()
	store.SetGate(gate)
	defer store.SetGate(nil)

	done := make(chan struct{})
	go func() {
		defer close(done)
		fn()
	}()

	start := time.Now()
	res := Result{}
	last := store.Events()
	lastChange := time.Now()
	step := 0
	orderIx := 0
	orderWait := time.Time{}
	for {
		select {
		case <-done:
			res.Done = true
			res.Elapsed = time.Since(start)
			for _, c := range gate.Released() {
				res.Released = append(res.Released, c.String())
			}
			// release anything still parked (cancelled contexts clean up themselves)
			for gate.NumPending() > 0 {
				gate.Release(0)
			}
			return res
		default:
		}
		ev := store.Events()
		now := time.Now()
		if ev != last {
			last = ev
			lastChange = now
		}
		quiet := now.Sub(lastChange)
		np := gate.NumPending()
		if np > res.MaxPending {
			res.MaxPending = np
		}
		if np > 0 && quiet >= opt.Settle {
			released := false
			if orderIx < len(opt.Order) {
				// replay: wait for the recorded next CID to be outstanding
				for _, c := range gate.Pending() {
					if c.String() == opt.Order[orderIx] {
						gate.ReleaseCid(c)
						orderIx++
						released = true
						orderWait = time.Time{}
						break
					}
				}
				if !released {
					if orderWait.IsZero() {
						orderWait = now
					}
					if now.Sub(orderWait) > 50*opt.Settle { // recorded order no longer realisable: fall back to the schedule
						orderIx = len(opt.Order)
					}
				}
			}
			if !released && orderIx >= len(opt.Order) {
				var avoid func(cid.Cid) bool
				if opt.Slow != nil {
					avoid = func(c cid.Cid) bool { return opt.Slow(c.String()) }
				}
				_, ooo := gate.ReleaseAvoiding(opt.Schedule[step%len(opt.Schedule)], avoid)
				step++
				if ooo {
					res.OutOfOrder++
				}
			}
			lastChange = time.Now()
			last = store.Events()
			continue
		}
		if np == 0 && quiet >= 20*opt.Settle && opt.OnQuiet != nil {
			if opt.OnQuiet() {
				lastChange = time.Now()
				continue
			}
		}
		if np == 0 && quiet >= opt.HangAfter {
			var buf bytes.Buffer
			_ = pprof.Lookup("goroutine").WriteTo(&buf, 2)
			dump := buf.String()
			res.HangDump = dump
			// a hang is declared only if the fetch goroutines are parked waiting for each other
			if strings.Contains(dump, "processQueue") && (strings.Contains(dump, "sync.(*Cond).Wait") || strings.Contains(dump, "semaphore.(*Weighted).Acquire")) && !strings.Contains(dump, "fetchEntry") {
				res.Hang = true
			} else {
				res.Inconclusive = "call did not return, nothing outstanding, but the goroutine dump does not show a parked fetcher"
			}
			res.Elapsed = time.Since(start)
			return res
		}
		if now.Sub(start) > opt.HardLimit {
			res.Inconclusive = "hard limit reached"
			res.Elapsed = time.Since(start)
			return res
		}
		time.Sleep(20 * time.Microsecond)
	}
}
