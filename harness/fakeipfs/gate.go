package fakeipfs

import (
	"context"
	"sync"
	"sync/atomic"

	"github.com/ipfs/go-cid"
)

// Gate parks every Get until the controller releases it.
type Gate struct {
	mu       sync.Mutex
	pending  []*pendingReq
	seq      int
	released []cid.Cid // realised completion order
	stalls   []cid.Cid
	events   *atomic.Int64
}

type pendingReq struct {
	seq int
	c   cid.Cid
	ch  chan struct{}
}

func NewGate() *Gate { return &Gate{} }

func (g *Gate) wait(ctx context.Context, c cid.Cid) error {
	g.mu.Lock()
	p := &pendingReq{seq: g.seq, c: c, ch: make(chan struct{})}
	g.seq++
	g.pending = append(g.pending, p)
	g.mu.Unlock()
	if g.events != nil {
		g.events.Add(1)
	}
	select {
	case <-p.ch:
		return nil
	case <-ctx.Done():
		g.mu.Lock()
		for i, q := range g.pending {
			if q == p {
				g.pending = append(g.pending[:i], g.pending[i+1:]...)
				break
			}
		}
		g.mu.Unlock()
		if g.events != nil {
			g.events.Add(1)
		}
		return ctx.Err()
	}
}

func (g *Gate) noteStall(c cid.Cid) {
	g.mu.Lock()
	g.stalls = append(g.stalls, c)
	g.mu.Unlock()
}

// Pending returns the CIDs of the outstanding requests in issue order.
func (g *Gate) Pending() []cid.Cid {
	g.mu.Lock()
	defer g.mu.Unlock()
	out := make([]cid.Cid, len(g.pending))
	for i, p := range g.pending {
		out[i] = p.c
	}
	return out
}

func (g *Gate) NumPending() int {
	g.mu.Lock()
	defer g.mu.Unlock()
	return len(g.pending)
}

// Release completes the k-th outstanding request (k taken modulo the number
// outstanding). Returns false when nothing is outstanding. outOfOrder reports
// whether an older request was left waiting.
func (g *Gate) Release(k int) (ok bool, outOfOrder bool) {
	g.mu.Lock()
	if len(g.pending) == 0 {
		g.mu.Unlock()
		return false, false
	}
	if k < 0 {
		k = -k
	}
	k %= len(g.pending)
	p := g.pending[k]
	g.pending = append(g.pending[:k], g.pending[k+1:]...)
	g.released = append(g.released, p.c)
	g.mu.Unlock()
	if g.events != nil {
		g.events.Add(1)
	}
	close(p.ch)
	return true, k != 0
}

// ReleaseCid completes the oldest outstanding request for c, if any.
func (g *Gate) ReleaseCid(c cid.Cid) bool {
	g.mu.Lock()
	for i, p := range g.pending {
		if p.c == c {
			g.pending = append(g.pending[:i], g.pending[i+1:]...)
			g.released = append(g.released, p.c)
			g.mu.Unlock()
			if g.events != nil {
				g.events.Add(1)
			}
			close(p.ch)
			return true
		}
	}
	g.mu.Unlock()
	return false
}

func (g *Gate) Released() []cid.Cid {
	g.mu.Lock()
	defer g.mu.Unlock()
	return append([]cid.Cid(nil), g.released...)
}

func (g *Gate) Stalls() []cid.Cid {
	g.mu.Lock()
	defer g.mu.Unlock()
	return append([]cid.Cid(nil), g.stalls...)
}

// ReleaseAvoiding is Release, but requests whose CID satisfies avoid are only
// chosen when nothing else is outstanding (slow blocks complete last).
func (g *Gate) ReleaseAvoiding(k int, avoid func(cid.Cid) bool) (ok bool, outOfOrder bool) {
	g.mu.Lock()
	var cand []int
	for i, p := range g.pending {
		if avoid == nil || !avoid(p.c) {
			cand = append(cand, i)
		}
	}
	if len(cand) == 0 {
		g.mu.Unlock()
		return g.Release(k)
	}
	if k < 0 {
		k = -k
	}
	ix := cand[k%len(cand)]
	p := g.pending[ix]
	g.pending = append(g.pending[:ix], g.pending[ix+1:]...)
	g.released = append(g.released, p.c)
	g.mu.Unlock()
	if g.events != nil {
		g.events.Add(1)
	}
	close(p.ch)
	return true, ix != 0
}
