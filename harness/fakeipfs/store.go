// Package fakeipfs is an in-memory coreiface.CoreAPI whose Dag() the harness
// owns: it records every write and read, can inject faults per CID, can gate
// reads so that a controller decides the completion order, and can expose any
// prefix of its write history (crash points).
package fakeipfs

import (
	"bytes"
	"context"
	"errors"
	"fmt"
	"sync"
	"sync/atomic"
	"time"

	"github.com/ipfs/boxo/path"
	"github.com/ipfs/go-cid"
	format "github.com/ipfs/go-ipld-format"
	merkledag "github.com/ipfs/go-merkledag"
	coreiface "github.com/ipfs/kubo/core/coreiface"
	"github.com/ipfs/kubo/core/coreiface/options"
	"github.com/ipld/go-ipld-prime/codec/dagcbor"
	basicnode "github.com/ipld/go-ipld-prime/node/basic"
	mh "github.com/multiformats/go-multihash"
)

// FaultKind says how a Get of a given CID misbehaves.
type FaultKind int

const (
	FaultNone     FaultKind = iota
	FaultAbsent             // not found
	FaultError              // I/O error
	FaultStall              // never completes until the context ends
	FaultDeadline           // the store gave up on this block under a deadline of its OWN: a wrapped context.DeadlineExceeded, although the caller's context is alive
	FaultCanceled           // likewise, a wrapped context.Canceled (the store's own request was cancelled)
)

var ErrInjected = errors.New("fakeipfs: injected error")

type Store struct {
	mu       sync.Mutex
	blocks   map[cid.Cid][]byte
	index    map[cid.Cid]int // cid -> index of first write
	writes   []cid.Cid       // first-time writes in order
	adds     []cid.Cid       // every Add call in order
	gets     []cid.Cid       // every Get call in order (incl. failing ones)
	faults   map[cid.Cid]FaultKind
	keepRefs bool
	slow     map[cid.Cid]time.Duration // reads of these blocks take that long (or until the context ends)
	addFail  func(nth int, c cid.Cid) error // optional; nth = number of Add calls so far (0-based)
	gate     *Gate
	events   atomic.Int64
	pins     []string
	pinFail  func(nth int) error
	ghosts   map[cid.Cid][]byte // bytes of removed blocks, for prefix views taken before the removal
	removed  map[cid.Cid]int    // cid -> number of distinct writes when the block was removed (absent = alive)
	removes  []cid.Cid          // every successful Remove in order
	whole    *api
	delay    time.Duration                            // every read takes this long (or until its context ends)
	addHold  func(nth int, c cid.Cid) <-chan struct{} // optional: a write waits on the returned channel before it lands
}

// SetAddHold installs a function asked before every block write lands; a non-nil channel makes that write wait
// until the channel is closed (the block is not in the store meanwhile).
func (s *Store) SetAddHold(f func(nth int, c cid.Cid) <-chan struct{}) {
	s.mu.Lock()
	defer s.mu.Unlock()
	s.addHold = f
}

// SetDelay makes every read take d (real time) before it is answered; a read whose context ends first returns the
// context's error.
// SetKeepRefs makes the store keep the very byte slices it is handed by Add instead of copying them, as in-memory
// datastores do: a writer that reuses a buffer after the write then alters the stored block.
func (s *Store) SetKeepRefs(on bool) {
	s.mu.Lock()
	defer s.mu.Unlock()
	s.keepRefs = on
}

// SetSlow makes every read of block c take d (0: as fast as the others again). The read honours its context.
func (s *Store) SetSlow(c cid.Cid, d time.Duration) {
	s.mu.Lock()
	defer s.mu.Unlock()
	if s.slow == nil {
		s.slow = map[cid.Cid]time.Duration{}
	}
	if d <= 0 {
		delete(s.slow, c)
		return
	}
	s.slow[c] = d
}

func (s *Store) SetDelay(d time.Duration) {
	s.mu.Lock()
	defer s.mu.Unlock()
	s.delay = d
}

// Pins returns the recorded pin roots.
func (s *Store) Pins() []string {
	s.mu.Lock()
	defer s.mu.Unlock()
	return append([]string(nil), s.pins...)
}

func (s *Store) SetPinFail(f func(nth int) error) {
	s.mu.Lock()
	defer s.mu.Unlock()
	s.pinFail = f
}

func NewStore() *Store {
	return &Store{
		blocks:  map[cid.Cid][]byte{},
		index:   map[cid.Cid]int{},
		faults:  map[cid.Cid]FaultKind{},
		ghosts:  map[cid.Cid][]byte{},
		removed: map[cid.Cid]int{},
	}
}

// Removes returns the blocks removed through the DAG service, in order.
func (s *Store) Removes() []cid.Cid {
	s.mu.Lock()
	defer s.mu.Unlock()
	return append([]cid.Cid(nil), s.removes...)
}

// API returns a CoreAPI over the whole store.
// (one object per store, as replicas living in one process share their node's CoreAPI)
func (s *Store) API() coreiface.CoreAPI {
	s.mu.Lock()
	defer s.mu.Unlock()
	if s.whole == nil {
		s.whole = &api{s: s, limit: -1}
	}
	return s.whole
}

// Prefix returns a read-only CoreAPI that sees only the first n distinct block writes.
func (s *Store) Prefix(n int) coreiface.CoreAPI { return &api{s: s, limit: n} }

func (s *Store) SetFault(c cid.Cid, k FaultKind) {
	s.mu.Lock()
	defer s.mu.Unlock()
	if k == FaultNone {
		delete(s.faults, c)
	} else {
		s.faults[c] = k
	}
}

func (s *Store) ClearFaults() {
	s.mu.Lock()
	defer s.mu.Unlock()
	s.faults = map[cid.Cid]FaultKind{}
}

func (s *Store) SetAddFail(f func(nth int, c cid.Cid) error) {
	s.mu.Lock()
	defer s.mu.Unlock()
	s.addFail = f
}

func (s *Store) SetGate(g *Gate) {
	s.mu.Lock()
	defer s.mu.Unlock()
	s.gate = g
	if g != nil {
		g.events = &s.events
	}
}

// Events is a counter that changes whenever the store sees a request or a release.
func (s *Store) Events() int64 { return s.events.Load() }

// Writes returns the ordered list of distinct block writes.
func (s *Store) Writes() []cid.Cid {
	s.mu.Lock()
	defer s.mu.Unlock()
	return append([]cid.Cid(nil), s.writes...)
}

func (s *Store) NumWrites() int {
	s.mu.Lock()
	defer s.mu.Unlock()
	return len(s.writes)
}

func (s *Store) NumAdds() int {
	s.mu.Lock()
	defer s.mu.Unlock()
	return len(s.adds)
}

// Gets returns the ordered list of Get calls.
func (s *Store) Gets() []cid.Cid {
	s.mu.Lock()
	defer s.mu.Unlock()
	return append([]cid.Cid(nil), s.gets...)
}

func (s *Store) ResetGets() {
	s.mu.Lock()
	defer s.mu.Unlock()
	s.gets = nil
}

// Raw returns the stored bytes of a block.
func (s *Store) Raw(c cid.Cid) ([]byte, bool) {
	s.mu.Lock()
	defer s.mu.Unlock()
	b, ok := s.blocks[c]
	return b, ok
}

// PutRaw stores arbitrary bytes under the given CID (hostile blocks); it is
// recorded as a write.
func (s *Store) PutRaw(c cid.Cid, data []byte) {
	s.mu.Lock()
	defer s.mu.Unlock()
	s.putLocked(c, data)
}

func (s *Store) putLocked(c cid.Cid, data []byte) {
	if _, ok := s.blocks[c]; !ok {
		s.index[c] = len(s.writes)
		s.writes = append(s.writes, c)
		delete(s.removed, c)
		delete(s.ghosts, c)
	}
	s.blocks[c] = data
}

// PutBytes computes the CID of data for the given codec (sha2-256, CIDv1) and stores it.
func (s *Store) PutBytes(codec uint64, data []byte) cid.Cid {
	c, err := cid.V1Builder{Codec: codec, MhType: mh.SHA2_256}.Sum(data)
	if err != nil {
		panic(err)
	}
	s.PutRaw(c, data)
	return c
}

// Decode turns stored bytes into a node the way an IPFS DAG service would.
func Decode(c cid.Cid, data []byte) (format.Node, error) {
	switch c.Type() {
	case cid.DagCBOR:
		// kubo's DAG service decodes dag-cbor blocks with go-ipld-prime and hands
		// out a node whose RawData() is the stored bytes.
		nb := basicnode.Prototype.Any.NewBuilder()
		if err := dagcbor.Decode(nb, bytes.NewReader(data)); err != nil {
			return nil, err
		}
		return rawNode{c: c, data: data}, nil
	case cid.DagProtobuf:
		n, err := merkledag.DecodeProtobuf(data)
		if err != nil {
			return nil, err
		}
		return n, nil
	case cid.Raw:
		return rawNode{c: c, data: data}, nil
	default:
		return nil, fmt.Errorf("fakeipfs: unsupported codec %d", c.Type())
	}
}

type api struct {
	coreiface.CoreAPI // nil: every other method panics, the library never calls them
	s                 *Store
	limit             int
}

func (a *api) Dag() coreiface.APIDagService { return &dagSvc{a: a} }

// Pin returns a pin service that records pin roots without fetching them (the
// CoreAPI contract does not promise that a pin verifies local presence).
func (a *api) Pin() coreiface.PinAPI { return &pinSvc{a: a} }

type pinSvc struct {
	coreiface.PinAPI // nil: only Add is used by the library
	a                *api
}

func (p *pinSvc) Add(ctx context.Context, pth path.Path, _ ...options.PinAddOption) error {
	s := p.a.s
	s.mu.Lock()
	defer s.mu.Unlock()
	s.pins = append(s.pins, pth.String())
	if s.pinFail != nil {
		return s.pinFail(len(s.pins) - 1)
	}
	return nil
}

// PanicFault, returned by an AddFail function, makes the write panic with that value instead of returning an error.
type PanicFault struct{ Msg string }

func (p PanicFault) Error() string { return p.Msg }

type dagSvc struct{ a *api }

func (d *dagSvc) Pinning() format.NodeAdder { return d }

func (d *dagSvc) Add(ctx context.Context, n format.Node) error {
	s := d.a.s
	if d.a.limit >= 0 {
		return errors.New("fakeipfs: read-only prefix view")
	}
	s.events.Add(1)
	s.mu.Lock()
	nth := len(s.adds)
	s.adds = append(s.adds, n.Cid())
	if s.addFail != nil {
		if err := s.addFail(nth, n.Cid()); err != nil {
			s.mu.Unlock()
			if pf, ok := err.(PanicFault); ok {
				panic(pf) // the storage layer dies under the write (a datastore used while it is being closed, say)
			}
			return err
		}
	}
	if s.addHold != nil {
		if hold := s.addHold(nth, n.Cid()); hold != nil {
			s.mu.Unlock()
			<-hold
			s.mu.Lock()
		}
	}
	data := n.RawData()
	if !s.keepRefs {
		data = append([]byte(nil), data...)
	}
	s.putLocked(n.Cid(), data)
	s.mu.Unlock()
	return nil
}

func (d *dagSvc) AddMany(ctx context.Context, ns []format.Node) error {
	for _, n := range ns {
		if err := d.Add(ctx, n); err != nil {
			return err
		}
	}
	return nil
}

func (d *dagSvc) Get(ctx context.Context, c cid.Cid) (format.Node, error) {
	s := d.a.s
	s.events.Add(1)
	s.mu.Lock()
	s.gets = append(s.gets, c)
	fault := s.faults[c]
	data, ok := s.blocks[c]
	if ok && d.a.limit >= 0 && s.index[c] >= d.a.limit {
		ok = false
	}
	if !ok && d.a.limit >= 0 {
		// a block removed later is still there in a view of the store taken before its removal
		if at, was := s.removed[c]; was && s.index[c] < d.a.limit && d.a.limit < at {
			data, ok = s.ghosts[c], true
		}
	}
	gate := s.gate
	delay := s.delay
	if d, ok := s.slow[c]; ok && d > delay {
		delay = d
	}
	s.mu.Unlock()

	if delay > 0 {
		select {
		case <-time.After(delay):
		case <-ctx.Done():
			return nil, ctx.Err()
		}
	}
	if fault == FaultStall {
		if gate != nil {
			gate.noteStall(c)
		}
		<-ctx.Done()
		s.events.Add(1)
		return nil, ctx.Err()
	}
	if gate != nil {
		if err := gate.wait(ctx, c); err != nil {
			return nil, err
		}
	}
	if err := ctx.Err(); err != nil {
		return nil, err
	}
	switch fault {
	case FaultAbsent:
		return nil, format.ErrNotFound{Cid: c}
	case FaultError:
		return nil, ErrInjected
	case FaultDeadline:
		return nil, fmt.Errorf("block store: request for %s timed out: %w", c, context.DeadlineExceeded)
	case FaultCanceled:
		return nil, fmt.Errorf("block store: request for %s abandoned: %w", c, context.Canceled)
	}
	if !ok {
		return nil, format.ErrNotFound{Cid: c}
	}
	return Decode(c, data)
}

func (d *dagSvc) GetMany(ctx context.Context, cs []cid.Cid) <-chan *format.NodeOption {
	out := make(chan *format.NodeOption, len(cs))
	for _, c := range cs {
		n, err := d.Get(ctx, c)
		out <- &format.NodeOption{Node: n, Err: err}
	}
	close(out)
	return out
}

// Remove deletes a block the way a DAG service does (not found when it is not there).
func (d *dagSvc) Remove(_ context.Context, c cid.Cid) error {
	s := d.a.s
	if d.a.limit >= 0 {
		return errors.New("fakeipfs: read-only prefix view")
	}
	s.events.Add(1)
	s.mu.Lock()
	defer s.mu.Unlock()
	data, ok := s.blocks[c]
	if !ok {
		return format.ErrNotFound{Cid: c}
	}
	delete(s.blocks, c)
	s.ghosts[c] = data
	s.removed[c] = len(s.writes)
	s.removes = append(s.removes, c)
	return nil
}

func (d *dagSvc) RemoveMany(ctx context.Context, cs []cid.Cid) error {
	for _, c := range cs {
		if err := d.Remove(ctx, c); err != nil {
			return err
		}
	}
	return nil
}

// rawNode is a minimal node for the raw codec.
type rawNode struct {
	c    cid.Cid
	data []byte
}

func (r rawNode) RawData() []byte                  { return r.data }
func (r rawNode) Cid() cid.Cid                     { return r.c }
func (r rawNode) String() string                   { return r.c.String() }
func (r rawNode) Loggable() map[string]interface{} { return nil }
func (r rawNode) Resolve([]string) (interface{}, []string, error) {
	return nil, nil, errors.New("raw")
}
func (r rawNode) Tree(string, int) []string { return nil }
func (r rawNode) ResolveLink([]string) (*format.Link, []string, error) {
	return nil, nil, errors.New("raw")
}
func (r rawNode) Copy() format.Node               { return r }
func (r rawNode) Links() []*format.Link           { return nil }
func (r rawNode) Stat() (*format.NodeStat, error) { return &format.NodeStat{}, nil }
func (r rawNode) Size() (uint64, error)           { return uint64(len(r.data)), nil }
