// Package sim interprets generated multi-replica programs (appends, merges,
// identity changes, rebuilds) against real logs over one fake store, while
// maintaining the reference model (a set of entry hashes per replica).
package sim

import (
	"context"
	"errors"
	"fmt"
	"sync/atomic"

	"github.com/ipfs/go-cid"

	"berty.tech/go-ipfs-log/accesscontroller"
	idp "berty.tech/go-ipfs-log/identityprovider"

	"pgregory.net/rapid"

	ipfslog "berty.tech/go-ipfs-log"
	"berty.tech/go-ipfs-log/entry"
	"berty.tech/go-ipfs-log/iface"

	"verifharness/ev"
	"verifharness/fakeipfs"
	"verifharness/world"
)

const LogID = "verif-log"

// OlderLogID is the id of the history that continued logs are built on top of (Prog.Continued).
const OlderLogID = "verif-older-log"

type Op struct {
	Kind    string `json:"k"`           // append | join | selfjoin | joinempty | joinother | setid | rebuild
	A       int    `json:"a"`           // replica (mod n)
	B       int    `json:"b,omitempty"` // source replica for join (mod n), writer for setid
	Payload string `json:"p,omitempty"`
	PC      int    `json:"pc,omitempty"`  // pointer count for append
	Pin     bool   `json:"pin,omitempty"` // append with AppendOptions.Pin
	Flag    int    `json:"f,omitempty"`   // rebuild: 0 = with heads, 1 = heads omitted (FindHeads)
}

type Prog struct {
	Replicas      int   `json:"replicas"`
	Writers       []int `json:"writers"` // initial writer per replica
	Order         int   `json:"order"`   // 0 lww, 1 hash
	Codec         int   `json:"codec"`   // world.Codec
	Ops           []Op  `json:"ops"`
	Sync          []int `json:"sync,omitempty"`          // choices for the final complete exchange (empty: no exchange)
	Clocks        []int `json:"clocks,omitempty"`        // initial clock time per replica (LogOptions.Clock)
	Conc          []int `json:"conc,omitempty"`          // LogOptions.Concurrency per replica (0 = default)
	Preload       []int `json:"preload,omitempty"`       // per replica: starts with the first n entries of one long shared history (large logs)
	Continued     int   `json:"continued,omitempty"`     // n > 0: the log continues, under its own id, the first n entries of a history written under ANOTHER log id; every replica starts holding them
	Wide          []int `json:"wide,omitempty"`          // per replica: starts holding that many independent short histories (as many heads)
	ReplicaOrders []int `json:"replicaOrders,omitempty"` // SortFn of replica i when it differs from the world's (-1 / absent: the world's ordering)
	ClockIDs      []int `json:"clockIds,omitempty"`      // id carried by the LogOptions.Clock of a replica with an initial clock: 0 its own key, 1 another writer's key, 2 empty
	SharedOpts    bool  `json:"sharedOpts,omitempty"`    // the application opens every replica that has no initial state of its own with ONE LogOptions value (the same pointer handed to NewLog each time)
}

// toggleAC is a permissive access controller that can be told to deny everything (for "appenddenied").
type toggleAC struct{ deny atomic.Bool }

var errDenied = errors.New("denied by the harness access controller")

func (a *toggleAC) CanAppend(accesscontroller.LogEntry, idp.Interface, accesscontroller.CanAppendAdditionalContext) error {
	if a.deny.Load() {
		return errDenied
	}
	return nil
}

// foreignLog hides the concrete type of a log behind the interface (methods are promoted).
type foreignLog struct{ iface.IPFSLog }

type Replica struct {
	AC      *toggleAC
	Log     *ipfslog.IPFSLog
	Model   world.Set
	Writer  int
	History []string // merge history (sources' set keys), to tell merge sequences apart
}

// Deny makes the replica's access controller refuse everything (appends and merges) from now on, or permit again.
func (r *Replica) Deny(on bool) { r.AC.deny.Store(on) }

type World struct {
	Prog  *Prog
	Store *fakeipfs.Store
	Reg   *world.Registry
	Reps  []*Replica
	IO    iface.IO
	Order world.Ordering
	Ctx   context.Context
	// HadPartial is set once a replica restarted from a length-limited load: sets are then not causally
	// closed and an exchange need not make all replicas equal.
	HadPartial bool
}

// OpInfo describes what an executed operation did, for observers.
type OpInfo struct {
	Index    int
	Op       Op
	Dst      int // affected replica
	Src      int // source replica (join), -1 otherwise
	Before   world.Set
	Entry    iface.IPFSLogEntry // append result
	PC       int                // effective pointer count requested
	Sync     bool               // part of the final exchange
	Returned iface.IPFSLog      // join result
	Err      error
	Partial  bool // the replica was replaced by a length-limited load (model adopted from the result)
	Refused  bool // the operation is a merge that must be refused (Err != nil expected)
	Skipped  bool // the operation had nothing to do in this state
}

type Observer func(tb ev.TB, w *World, info *OpInfo)

var PointerCounts = []int{0, 1, 1, 2, 3, 4, 8, 16, 64}

// GenConfig tunes the generator.
type GenConfig struct {
	MaxReplicas     int
	MaxOps          int
	MinOps          int
	Codecs          []int // allowed codecs
	Orders          []int
	WithSync        bool
	NoRebuild       bool
	NoSetID         bool
	NoBadJoin       bool // leave out "joinbad": a merge that must be refused (an unsigned candidate)
	WithPartial     bool // include "loadtail": the replica restarts from a length-limited load (its log is then not causally closed)
	WithLoad        bool // include "load": the replica restarts from the store (manifest / JSON heads / head entries)
	AppendBias      int  // extra weight for appends
	WideOneIn       int  // > 0: about one program in that many starts every replica with 21-40 independent short histories (many heads)
	ContinuedOneIn  int  // > 0: about one program in that many is a log that continues the history of another log (see Prog.Continued)
	LargeOneIn      int  // > 0: about one program in that many starts every replica from a prefix of one long shared history (> 1000 entries)
	SharedOptsOneIn int  // > 0: about one program in that many opens its replicas with one shared LogOptions value (see Prog.SharedOpts); sequential programs only
}

func Gen(t *rapid.T, cfg GenConfig) Prog {
	if cfg.MaxReplicas == 0 {
		cfg.MaxReplicas = 4
	}
	if cfg.MaxOps == 0 {
		cfg.MaxOps = 30
	}
	if len(cfg.Codecs) == 0 {
		cfg.Codecs = []int{0}
	}
	if len(cfg.Orders) == 0 {
		cfg.Orders = []int{0, 1}
	}
	n := rapid.IntRange(2, cfg.MaxReplicas).Draw(t, "replicas")
	nw := rapid.IntRange(1, 4).Draw(t, "writers")
	p := Prog{Replicas: n}
	for i := 0; i < n; i++ {
		p.Writers = append(p.Writers, rapid.IntRange(0, nw-1).Draw(t, "writer"))
	}
	for i := 0; i < n; i++ {
		p.Clocks = append(p.Clocks, rapid.SampledFrom([]int{0, 0, 0, 0, 0, 3, 1000, 1 << 40, 1<<53 - 1, 1 << 53, 1 << 60, 1_700_000_000_000_000_000}).Draw(t, "clock0"))
	}
	for i := 0; i < n; i++ {
		p.ClockIDs = append(p.ClockIDs, rapid.SampledFrom([]int{0, 0, 1, 2}).Draw(t, "clockId"))
	}
	for i := 0; i < n; i++ {
		p.Conc = append(p.Conc, rapid.SampledFrom([]int{0, 0, 1, 2, 3, 5}).Draw(t, "conc"))
	}
	if cfg.LargeOneIn > 0 && rapid.IntRange(0, cfg.LargeOneIn-1).Draw(t, "large") == cfg.LargeOneIn*2/3 { // (rapid favours small values: a value from the middle has about the nominal frequency)
		for i := 0; i < n; i++ {
			p.Preload = append(p.Preload, rapid.SampledFrom([]int{1030, 1100, 1100, 1290}).Draw(t, "preload"))
		}
	}
	if cfg.WideOneIn > 0 && len(p.Preload) == 0 && rapid.IntRange(0, cfg.WideOneIn-1).Draw(t, "wide") == cfg.WideOneIn*2/3 {
		for i := 0; i < n; i++ {
			p.Wide = append(p.Wide, rapid.SampledFrom([]int{21, 24, 30, 40}).Draw(t, "wideN"))
		}
	}
	if cfg.ContinuedOneIn > 0 && len(p.Preload) == 0 && len(p.Wide) == 0 && rapid.IntRange(0, cfg.ContinuedOneIn-1).Draw(t, "continued") == cfg.ContinuedOneIn*2/3 {
		p.Continued = rapid.IntRange(1, 9).Draw(t, "continuedN")
	}
	p.Order = rapid.SampledFrom(cfg.Orders).Draw(t, "order")
	p.Codec = rapid.SampledFrom(cfg.Codecs).Draw(t, "codec")
	kinds := []string{"append", "append", "append", "append", "append", "append", "join", "join", "join", "join", "selfjoin", "joinempty", "joinother"}
	if !cfg.NoBadJoin {
		kinds = append(kinds, "joinbad", "joinbad", "appenddenied", "appendfail")
	}
	for i := 0; i < cfg.AppendBias; i++ {
		kinds = append(kinds, "append")
	}
	if !cfg.NoSetID {
		kinds = append(kinds, "setid")
	}
	if !cfg.NoRebuild {
		kinds = append(kinds, "rebuild")
	}
	if cfg.WithLoad {
		kinds = append(kinds, "load")
	}
	if cfg.WithPartial {
		kinds = append(kinds, "loadtail")
	}
	nops := rapid.IntRange(cfg.MinOps, cfg.MaxOps).Draw(t, "nops")
	for i := 0; i < nops; i++ {
		op := Op{Kind: rapid.SampledFrom(kinds).Draw(t, "kind"), A: rapid.IntRange(0, n-1).Draw(t, "a")}
		switch op.Kind {
		case "append", "appenddenied", "appendfail":
			op.Payload = rapid.OneOf(rapid.StringMatching(`[a-z]{1,3}`), rapid.StringMatching(`[a-z]{1,3}`), rapid.SampledFrom([]string{"", "", "\x00", "\xff\xfe", "é", "a b"})).Draw(t, "payload")
			op.PC = rapid.SampledFrom(PointerCounts).Draw(t, "pc")
			op.Pin = rapid.IntRange(0, 3).Draw(t, "pin") == 0
		case "join":
			op.B = rapid.IntRange(0, n-1).Draw(t, "b")
			if rapid.IntRange(0, 4).Draw(t, "wrapped") == 0 {
				op.Flag = 1
			}
		case "joinbad":
			op.B = rapid.IntRange(0, n-1).Draw(t, "b")
			op.Flag = rapid.IntRange(0, 15).Draw(t, "flag")
		case "setid":
			op.B = rapid.IntRange(0, nw-1).Draw(t, "w")
		case "rebuild":
			op.Flag = rapid.IntRange(0, 1).Draw(t, "flag")
		case "load":
			op.Flag = rapid.IntRange(0, 2).Draw(t, "flag")
		case "loadtail":
			op.Flag = rapid.IntRange(0, 1).Draw(t, "flag")
			op.PC = rapid.IntRange(1, 6).Draw(t, "length")
		}
		p.Ops = append(p.Ops, op)
	}
	if cfg.WithSync {
		p.Sync = rapid.SliceOfN(rapid.IntRange(0, 1<<16), 4, 12).Draw(t, "sync")
	}
	if cfg.SharedOptsOneIn > 0 && rapid.IntRange(0, cfg.SharedOptsOneIn-1).Draw(t, "sharedOpts") == 0 {
		p.SharedOpts = true
	}
	return p
}

func New(tb ev.TB, p *Prog) *World {
	w := &World{
		Prog:  p,
		Store: fakeipfs.NewStore(),
		Reg:   world.NewRegistry(),
		Order: world.Ordering(p.Order % 3),
		Ctx:   context.Background(),
	}
	w.IO = world.IO(world.Codec(p.Codec), 0)
	if p.Replicas < 1 {
		p.Replicas = 1
	}
	var sharedLo *ipfslog.LogOptions
	var sharedAC *toggleAC
	for i := 0; i < p.Replicas; i++ {
		wr := 0
		if i < len(p.Writers) {
			wr = p.Writers[i]
		}
		ac := &toggleAC{}
		lo := &ipfslog.LogOptions{AccessController: ac}
		if i < len(p.Conc) && p.Conc[i] > 0 {
			lo.Concurrency = uint(p.Conc[i])
		}
		if i < len(p.Clocks) && p.Clocks[i] > 0 {
			// the option carries a clock *time*; which id that clock object has is the caller's business
			id := world.Identity(wr).PublicKey
			if i < len(p.ClockIDs) {
				switch p.ClockIDs[i] {
				case 1:
					id = world.Identity((wr + 1) % 4).PublicKey
				case 2:
					id = nil
				}
			}
			lo.Clock = entry.NewLamportClock(id, p.Clocks[i])
		}
		model := world.Set{}
		if i < len(p.Preload) && p.Preload[i] > 0 {
			// a replica of an existing long log: the entries are handed over as LogOptions.Entries (heads are derived)
			es, raws := world.LongChain(world.Codec(p.Codec), LogID, p.Preload[i])
			for k, e := range es {
				if !w.Reg.Has(e.GetHash().String()) {
					w.Reg.Record(e)
					w.Store.PutRaw(e.GetHash(), raws[k])
				}
				model.Add(e.GetHash().String())
			}
			lo.Entries = entry.NewOrderedMapFromEntries(es)
			lo.Heads = es[len(es)-1:] // with the heads given the log's clock starts at their time, as for a log that grew by appends
		}
		if i < len(p.Wide) && p.Wide[i] > 0 && lo.Entries == nil {
			chains, raws := world.WideForest(world.Codec(p.Codec), LogID, p.Wide[i])
			var es, tips []iface.IPFSLogEntry
			for ci, chain := range chains {
				tips = append(tips, chain[len(chain)-1])
				for k, e := range chain {
					if !w.Reg.Has(e.GetHash().String()) {
						w.Reg.Record(e)
						w.Store.PutRaw(e.GetHash(), raws[ci][k])
					}
					model.Add(e.GetHash().String())
					es = append(es, e)
				}
			}
			lo.Entries = entry.NewOrderedMapFromEntries(es)
			lo.Heads = tips // with the heads given the log's clock starts at their largest time
		}
		if p.Continued > 0 && lo.Entries == nil {
			es, raws := world.LongChain(world.Codec(p.Codec), OlderLogID, p.Continued)
			for k, e := range es {
				if !w.Reg.Has(e.GetHash().String()) {
					w.Reg.Record(e)
					w.Store.PutRaw(e.GetHash(), raws[k])
				}
				model.Add(e.GetHash().String())
			}
			lo.Entries = entry.NewOrderedMapFromEntries(es)
			lo.Heads = es[len(es)-1:]
		}
		order := w.Order
		if i < len(p.ReplicaOrders) && p.ReplicaOrders[i] >= 0 {
			order = world.Ordering(p.ReplicaOrders[i] % 3)
		}
		var l *ipfslog.IPFSLog
		var err error
		if p.SharedOpts && lo.Clock == nil && lo.Entries == nil && order == w.Order {
			// one options value for all such replicas, handed to the library as it is (the library fills in its
			// defaults through the pointer; the next NewLog gets the same value again)
			if sharedLo == nil {
				sharedLo = &ipfslog.LogOptions{ID: LogID, SortFn: world.SortFn(w.Order), IO: w.IO, AccessController: ac, Concurrency: lo.Concurrency}
				sharedAC = ac
			}
			ac = sharedAC
			l, err = ipfslog.NewLog(w.Store.API(), world.Identity(wr), sharedLo)
		} else {
			l, err = world.NewLog(w.Store.API(), wr, LogID, order, w.IO, lo)
		}
		if err != nil {
			tb.Fatalf("harness: NewLog: %v", err)
		}
		w.Reps = append(w.Reps, &Replica{AC: ac, Log: l, Model: model, Writer: wr})
	}
	return w
}

func (w *World) NewEmptyLog(tb ev.TB, writer int, id string) *ipfslog.IPFSLog {
	l, err := world.NewLog(w.Store.API(), writer, id, w.Order, w.IO, nil)
	if err != nil {
		tb.Fatalf("harness: NewLog: %v", err)
	}
	return l
}

// Exec executes one operation and updates the model. Library errors on
// operations that must succeed are reported through info.Err (observers decide).
func (w *World) Exec(tb ev.TB, idx int, op Op, sync bool) *OpInfo {
	n := len(w.Reps)
	a := mod(op.A, n)
	r := w.Reps[a]
	info := &OpInfo{Index: idx, Op: op, Dst: a, Src: -1, Before: r.Model.Clone(), Sync: sync}
	switch op.Kind {
	case "append":
		pc := op.PC
		info.PC = pc
		e, err := r.Log.Append(w.Ctx, []byte(op.Payload), &ipfslog.AppendOptions{PointerCount: pc, Pin: op.Pin})
		info.Err = err
		if err == nil {
			info.Entry = e
			w.Reg.Record(e)
			r.Model.Add(e.GetHash().String())
			r.History = append(r.History, "a")
		}
	case "join":
		b := mod(op.B, n)
		if b == a {
			op.Kind = "selfjoin"
			info.Op = op
			ret, err := r.Log.Join(r.Log, -1)
			info.Returned, info.Err = ret, err
			break
		}
		info.Src = b
		src := w.Reps[b]
		var other iface.IPFSLog = src.Log
		if op.Flag%2 == 1 {
			other = foreignLog{src.Log} // another implementation of the log interface: Join cannot rely on the concrete type
		}
		ret, err := r.Log.Join(other, -1)
		info.Returned, info.Err = ret, err
		if err == nil {
			r.Model = w.JoinModel(r.Model, src.Model)
			r.History = append(r.History, "j"+src.Model.Key())
		}
	case "appenddenied":
		// an append the access controller refuses: must fail and leave the log as it was
		r.AC.deny.Store(true)
		_, err := r.Log.Append(w.Ctx, []byte(op.Payload), &ipfslog.AppendOptions{PointerCount: op.PC, Pin: op.Pin})
		r.AC.deny.Store(false)
		info.Err = err
		info.Refused = true
	case "appendfail":
		// an append whose block write fails: must fail and leave the log as it was
		target := w.Store.NumAdds()
		w.Store.SetAddFail(func(nth int, _ cid.Cid) error {
			if nth == target {
				return errors.New("injected block write failure")
			}
			return nil
		})
		_, err := r.Log.Append(w.Ctx, []byte(op.Payload), &ipfslog.AppendOptions{PointerCount: op.PC, Pin: op.Pin})
		w.Store.SetAddFail(nil)
		info.Err = err
		info.Refused = true
	case "joinbad":
		// a merge that must be refused: the source log with one candidate entry stripped of its signature
		b := mod(op.B, n)
		src := w.Reps[b]
		var cands []string
		for _, h := range src.Model.Sorted() {
			if !r.Model.Has(h) {
				cands = append(cands, h)
			}
		}
		if b == a || len(cands) == 0 {
			info.Skipped = true
			break
		}
		victim := cands[op.Flag%len(cands)]
		var es []iface.IPFSLogEntry
		for _, e := range src.Log.GetEntries().Slice() {
			if e.GetHash().String() == victim {
				c := e.Copy()
				c.SetSig(nil)
				es = append(es, c)
			} else {
				es = append(es, e)
			}
		}
		var heads []iface.IPFSLogEntry
		hs := world.SetOf(world.Hashes(src.Log.Heads()))
		for _, e := range es {
			if hs.Has(e.GetHash().String()) {
				heads = append(heads, e)
			}
		}
		bad, err := world.NewLog(w.Store.API(), src.Writer, LogID, w.Order, w.IO, &ipfslog.LogOptions{Entries: entry.NewOrderedMapFromEntries(es), Heads: heads})
		if err != nil {
			tb.Fatalf("harness: NewLog: %v", err)
		}
		info.Src = b
		info.Refused = true
		_, jerr := r.Log.Join(bad, -1)
		info.Err = jerr
		if jerr == nil {
			// not refused (that is C06's business, and legitimate when the stripped entry is not reachable
			// after a length-limited load): keep the model in step with what the log did
			r.Model = w.JoinModel(r.Model, src.Model)
			r.History = append(r.History, "jb"+src.Model.Key())
		}
	case "selfjoin":
		ret, err := r.Log.Join(r.Log, -1)
		info.Returned, info.Err = ret, err
	case "joinempty":
		empty := w.NewEmptyLog(tb, r.Writer, LogID)
		ret, err := r.Log.Join(empty, -1)
		info.Returned, info.Err = ret, err
	case "joinother":
		other := w.NewEmptyLog(tb, (r.Writer+1)%world.MaxWriters, "other-log")
		for i := 0; i < 2; i++ {
			if _, err := other.Append(w.Ctx, []byte(fmt.Sprintf("x%d", i)), nil); err != nil {
				tb.Fatalf("harness: append to other log: %v", err)
			}
		}
		ret, err := r.Log.Join(other, -1)
		info.Returned, info.Err = ret, err
	case "setid":
		r.Writer = mod(op.B, world.MaxWriters)
		r.Log.SetIdentity(world.Identity(r.Writer))
	case "rebuild":
		opts := &ipfslog.LogOptions{AccessController: r.AC, Entries: r.Log.GetEntries(), Clock: entry.NewLamportClock(r.Log.Clock.GetID(), r.Log.Clock.GetTime())}
		if op.Flag%2 == 0 {
			opts.Heads = r.Log.Heads().Slice()
		}
		l, err := world.NewLog(w.Store.API(), r.Writer, LogID, w.Order, w.IO, opts)
		info.Err = err
		if err == nil {
			r.Log = l
		}
	case "loadtail":
		// restart from a length-limited load: the replica now holds only the newest entries (what exactly is
		// C10's business: the model simply adopts what the load returned)
		if len(r.Model) == 0 || world.Codec(w.Prog.Codec) == world.CodecPB {
			info.Skipped = true
			break
		}
		lo := &ipfslog.LogOptions{ID: LogID, SortFn: world.SortFn(w.Order), IO: w.IO, AccessController: r.AC}
		n := op.PC
		if n < 1 {
			n = 1
		}
		var l *ipfslog.IPFSLog
		var err error
		if op.Flag%2 == 0 {
			c, e := r.Log.ToMultihash(w.Ctx)
			if e != nil {
				info.Err = e
				return info
			}
			l, err = ipfslog.NewFromMultihash(w.Ctx, w.Store.API(), world.Identity(r.Writer), c, lo, &ipfslog.FetchOptions{Length: &n})
		} else {
			l, err = ipfslog.NewFromEntryHash(w.Ctx, w.Store.API(), world.Identity(r.Writer), r.Log.Heads().Slice()[0].GetHash(), lo, &ipfslog.FetchOptions{Length: &n})
		}
		info.Err = err
		if err == nil {
			r.Log = l
			r.Model = world.SetOf(world.Hashes(l.GetEntries()))
			r.History = append(r.History, fmt.Sprintf("lt%d", n))
			info.Partial = true
			w.HadPartial = true
		}
	case "load":
		if len(r.Model) == 0 || world.Codec(w.Prog.Codec) == world.CodecPB || (w.Prog.Continued > 0 && len(r.Model) <= w.Prog.Continued) {
			// (a log that continues another log's history and has no entry of its own yet is not reloaded: the loader
			// that is handed head entries only has nothing to tell the log's id by - see DESIGN §7)
			info.Skipped = true
			break
		}
		lo := &ipfslog.LogOptions{ID: LogID, SortFn: world.SortFn(w.Order), IO: w.IO, AccessController: r.AC}
		var l *ipfslog.IPFSLog
		var err error
		switch op.Flag % 3 {
		case 0:
			c, e := r.Log.ToMultihash(w.Ctx)
			if e != nil {
				info.Err = e
				return info
			}
			l, err = ipfslog.NewFromMultihash(w.Ctx, w.Store.API(), world.Identity(r.Writer), c, lo, &ipfslog.FetchOptions{})
		case 1:
			l, err = ipfslog.NewFromJSON(w.Ctx, w.Store.API(), world.Identity(r.Writer), r.Log.ToJSONLog(), lo, &iface.FetchOptions{})
		case 2:
			l, err = ipfslog.NewFromEntry(w.Ctx, w.Store.API(), world.Identity(r.Writer), r.Log.Heads().Slice(), lo, &iface.FetchOptions{})
		}
		info.Err = err
		if err == nil {
			r.Log = l
			r.History = append(r.History, "l")
		}
	default:
		tb.Fatalf("harness: unknown op %q", op.Kind)
	}
	return info
}

func mod(a, n int) int {
	if a < 0 {
		a = -a
	}
	return a % n
}

// Run executes the program, calling obs after every operation; then, if the
// program asks for it, performs a complete exchange (pairwise merges in a
// generated order, repeated until every replica holds the union).
func Run(tb ev.TB, p *Prog, obs Observer) *World {
	w := New(tb, p)
	for i, op := range p.Ops {
		info := w.Exec(tb, i, op, false)
		if obs != nil {
			obs(tb, w, info)
		}
	}
	if len(p.Sync) > 0 {
		w.SyncAll(tb, p.Sync, obs)
	}
	return w
}

// JoinModel is the reference result of an unbounded merge of src into dst: dst plus every entry of src
// reachable from src's heads (the unreferenced members of src) along predecessor links through entries
// that dst does not hold. For causally closed logs (everything built by appends and unbounded merges)
// this is the plain union; the distinction only matters after a length-limited load.
func (w *World) JoinModel(dst, src world.Set) world.Set {
	out := dst.Clone()
	stack := w.Reg.ModelHeads(src).Sorted()
	seen := world.Set{}
	for len(stack) > 0 {
		h := stack[len(stack)-1]
		stack = stack[:len(stack)-1]
		if seen.Has(h) {
			continue
		}
		seen.Add(h)
		if !src.Has(h) || dst.Has(h) {
			continue
		}
		out.Add(h)
		stack = append(stack, w.Reg.Get(h).Next...)
	}
	return out
}

func (w *World) Union() world.Set {
	u := world.Set{}
	for _, r := range w.Reps {
		u.Union(r.Model)
	}
	return u
}

func (w *World) Converged() bool {
	for _, r := range w.Reps[1:] {
		if !r.Model.Equal(w.Reps[0].Model) {
			return false
		}
	}
	return true
}

func (w *World) SyncAll(tb ev.TB, choices []int, obs Observer) {
	n := len(w.Reps)
	var pairs [][2]int
	for i := 0; i < n; i++ {
		for j := 0; j < n; j++ {
			if i != j {
				pairs = append(pairs, [2]int{i, j})
			}
		}
	}
	step := 0
	idx := len(w.Prog.Ops)
	for round := 0; round < n+2 && !w.Converged(); round++ {
		// generated permutation of the pairs for this round
		ps := append([][2]int(nil), pairs...)
		for i := len(ps) - 1; i > 0; i-- {
			j := choices[step%len(choices)] % (i + 1)
			step++
			ps[i], ps[j] = ps[j], ps[i]
		}
		// a generated prefix of the round is repeated (idempotence under repetition)
		rep := choices[step%len(choices)] % 3
		step++
		for k, pr := range ps {
			times := 1
			if k < rep {
				times = 2
			}
			for x := 0; x < times; x++ {
				info := w.Exec(tb, idx, Op{Kind: "join", A: pr[0], B: pr[1]}, true)
				idx++
				if obs != nil {
					obs(tb, w, info)
				}
			}
		}
	}
	if !w.Converged() && !w.HadPartial {
		tb.Fatalf("harness: exchange did not converge in the model")
	}
}

// MustOK fails the case when an operation that must succeed returned an error.
func MustOK(tb ev.TB, info *OpInfo) {
	if info.Refused {
		return
	}
	if info.Err != nil {
		tb.Fatalf("op #%d %+v returned error: %v", info.Index, info.Op, info.Err)
	}
}
