//go:build verif

// Package coop is a cooperative, lock-aware scheduler for operations on shared
// logs. Logical threads are goroutines of which exactly one runs at a time;
// every hook point of the library (lock requests, releases, points inside
// critical sections) is a scheduling point; the interleaving is a generated
// list of choices; a deadlock is detected exactly (unfinished threads, none
// enabled) instead of guessed from a timeout.
package coop

import (
	"fmt"
	"runtime/debug"
	"sort"
	"sync"
	"time"

	ipfslog "berty.tech/go-ipfs-log"
)

type request struct {
	kind   byte // 'r' or 'w'
	log    *ipfslog.IPFSLog
	issued bool // a pending writer that has "called Lock": blocks later readers (Go's writer preference)
	seq    int
}

type thread struct {
	id      int
	name    string
	fn      func()
	resume  chan struct{}
	done    bool
	started bool
	req     *request
	panicV  any
	stack   string
	point   string
	// logical time of first run and of completion (for real-time order between operations)
	startAt, endAt int
}

type lockState struct {
	writer  int         // -1 none
	readers map[int]int // thread -> count
}

type Event struct {
	Step   int
	Thread int
	Point  string
	Log    *ipfslog.IPFSLog
}

type Sched struct {
	threads  []*thread
	cur      int
	locks    map[*ipfslog.IPFSLog]*lockState
	choices  []int
	step     int
	seq      int
	yield    chan struct{}
	Trace    []string
	names    map[*ipfslog.IPFSLog]string
	OnEvent  func(ev Event)            // called in the controller while every thread is parked; must not call hooked methods
	Switches int                       // context switches taken at points where the running thread could have continued
	InCS     int                       // ... of which while the preempted thread held a lock
	mu       sync.Mutex
}

func New(choices []int) *Sched {
	if len(choices) == 0 {
		choices = []int{0}
	}
	return &Sched{locks: map[*ipfslog.IPFSLog]*lockState{}, choices: choices, yield: make(chan struct{}), cur: -1, names: map[*ipfslog.IPFSLog]string{}}
}

func (s *Sched) Name(l *ipfslog.IPFSLog, name string) { s.names[l] = name }

func (s *Sched) Go(name string, fn func()) int {
	t := &thread{id: len(s.threads), name: name, fn: fn, resume: make(chan struct{})}
	s.threads = append(s.threads, t)
	return t.id
}

func (s *Sched) next() int {
	c := s.choices[s.step%len(s.choices)]
	s.step++
	if c < 0 {
		c = -c
	}
	return c
}

func (s *Sched) lockOf(l *ipfslog.IPFSLog) *lockState {
	ls, ok := s.locks[l]
	if !ok {
		ls = &lockState{writer: -1, readers: map[int]int{}}
		s.locks[l] = ls
	}
	return ls
}

func (s *Sched) grantable(t *thread) bool {
	r := t.req
	ls := s.lockOf(r.log)
	if ls.writer != -1 {
		return false
	}
	if r.kind == 'w' {
		for tid, n := range ls.readers {
			if n > 0 && tid != t.id {
				return false
			}
			if n > 0 && tid == t.id {
				return false // upgrading a read lock deadlocks in Go
			}
		}
		return true
	}
	// reader: blocked by an issued pending writer that registered earlier
	for _, o := range s.threads {
		if o != t && !o.done && o.req != nil && o.req.log == r.log && o.req.kind == 'w' && o.req.issued && o.req.seq < r.seq {
			return false
		}
	}
	return true
}

func (s *Sched) holdsLock(t *thread) bool {
	for _, ls := range s.locks {
		if ls.writer == t.id || ls.readers[t.id] > 0 {
			return true
		}
	}
	return false
}

// hook is installed as ipfslog.VerifHook while Run is active.
func (s *Sched) hook(point string, l *ipfslog.IPFSLog) {
	if s.cur < 0 {
		return
	}
	t := s.threads[s.cur]
	switch point {
	case "lock.r", "lock.w":
		s.seq++
		t.req = &request{kind: point[5], log: l, seq: s.seq}
		if point == "lock.w" {
			t.req.issued = s.next()%2 == 0
		}
	case "unlock.r":
		ls := s.lockOf(l)
		if ls.readers[t.id] > 0 {
			ls.readers[t.id]--
		}
	case "unlock.w":
		ls := s.lockOf(l)
		if ls.writer == t.id {
			ls.writer = -1
		}
	}
	t.point = point
	s.Trace = append(s.Trace, fmt.Sprintf("T%d(%s) %s %s", t.id, t.name, point, s.names[l]))
	if s.OnEvent != nil {
		// the thread is about to park; nothing else runs: safe to observe
		s.OnEvent(Event{Step: s.step, Thread: t.id, Point: point, Log: l})
	}
	s.yield <- struct{}{}
	<-t.resume
}

// ConfirmGrace is how long the threads of a model-level deadlock get to finish on the real locks.
var ConfirmGrace = 2 * time.Second

type Outcome struct {
	Deadlock   bool
	Blocked    []string // description of each blocked thread (deadlock)
	Panics     []string
	Stuck      string // a thread did not reach a scheduling point in time (harness limit, inconclusive)
	Steps      int
	Switches   int
	InCS       int
	StartAt    []int
	EndAt      []int
}

// Run executes the registered threads under the schedule.
func (s *Sched) Run() Outcome {
	ipfslog.VerifHook = s.hook
	defer func() { ipfslog.VerifHook = nil }()
	out := Outcome{}
	for {
		var enabled []*thread
		unfinished := 0
		for _, t := range s.threads {
			if t.done {
				continue
			}
			unfinished++
			if t.req == nil || s.grantable(t) {
				enabled = append(enabled, t)
			}
		}
		if unfinished == 0 {
			break
		}
		if len(enabled) == 0 {
			out.Deadlock = true
			for _, t := range s.threads {
				if !t.done && t.req != nil {
					ls := s.lockOf(t.req.log)
					out.Blocked = append(out.Blocked, fmt.Sprintf("T%d(%s) waits for %c-lock of %s (writer: T%d, readers: %v)", t.id, t.name, t.req.kind, s.names[t.req.log], ls.writer, ls.readers))
				}
			}
			// The verdict so far rests on the lock model fed by the hooks. Confirm it against the real locks:
			// let every parked thread go on to its real lock call (pending writers the model counts as having
			// called Lock first, so that the real RWMutex sees the same arrival order) with the hooks switched
			// off. If the threads then all finish, the real locks did not block them - the model and the code
			// disagree (e.g. a lock released earlier than its hook says) and the case is inconclusive, not a
			// deadlock. If they are still parked after the grace period, the deadlock is real.
			s.cur = -1
			var parked []*thread
			for _, t := range s.threads {
				if !t.done && t.started {
					parked = append(parked, t)
				}
			}
			sort.SliceStable(parked, func(i, j int) bool {
				wi := parked[i].req != nil && parked[i].req.kind == 'w' && parked[i].req.issued
				wj := parked[j].req != nil && parked[j].req.kind == 'w' && parked[j].req.issued
				if wi != wj {
					return wi
				}
				if parked[i].req != nil && parked[j].req != nil {
					return parked[i].req.seq < parked[j].req.seq
				}
				return false
			})
			for _, t := range parked {
				t.resume <- struct{}{}
				time.Sleep(15 * time.Millisecond)
			}
			finished := 0
			grace := time.After(ConfirmGrace)
		confirm:
			for finished < len(parked) {
				select {
				case <-s.yield:
					finished++
				case <-grace:
					break confirm
				}
			}
			if finished == len(parked) {
				out.Deadlock = false
				out.Blocked = nil
				out.Stuck = "the lock model reported a deadlock that the real locks did not confirm (all threads completed once released)"
				return out
			}
			// leave the parked goroutines behind: they hold only objects of this case
			break
		}
		// choose: prefer to continue the running thread half of the time
		c := s.next()
		var pick *thread
		var curT *thread
		if s.cur >= 0 {
			curT = s.threads[s.cur]
		}
		curEnabled := false
		for _, t := range enabled {
			if t == curT {
				curEnabled = true
			}
		}
		if curEnabled && c%4 < 2 {
			pick = curT
		} else {
			pick = enabled[(c/4)%len(enabled)]
		}
		if curEnabled && pick != curT {
			s.Switches++
			if s.holdsLock(curT) {
				s.InCS++
			}
		}
		if pick.req != nil {
			ls := s.lockOf(pick.req.log)
			if pick.req.kind == 'w' {
				ls.writer = pick.id
			} else {
				ls.readers[pick.id]++
			}
			pick.req = nil
		}
		s.cur = pick.id
		if !pick.started {
			pick.started = true
			pick.startAt = s.step
			go func(t *thread) {
				<-t.resume
				defer func() {
					if r := recover(); r != nil {
						t.panicV = r
						t.stack = string(debug.Stack())
					}
					t.done = true
					t.endAt = s.step
					s.yield <- struct{}{}
				}()
				t.fn()
			}(pick)
		}
		pick.resume <- struct{}{}
		select {
		case <-s.yield:
		case <-time.After(30 * time.Second):
			out.Stuck = fmt.Sprintf("T%d(%s) did not reach a scheduling point within 30s after %q", pick.id, pick.name, pick.point)
			s.cur = -1
			return out
		}
		s.cur = -1
	}
	out.Steps = s.step
	out.Switches = s.Switches
	out.InCS = s.InCS
	for _, t := range s.threads {
		out.StartAt = append(out.StartAt, t.startAt)
		out.EndAt = append(out.EndAt, t.endAt)
		if t.panicV != nil {
			st := t.stack
			if len(st) > 2500 {
				st = st[:2500]
			}
			out.Panics = append(out.Panics, fmt.Sprintf("T%d(%s) panicked: %v\n%s", t.id, t.name, t.panicV, st))
		}
	}
	return out
}
