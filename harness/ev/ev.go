// Package ev is the glue between a property (generator + run function), rapid,
// the replay files and the evidence files.
package ev

import (
	"crypto/sha256"
	"encoding/hex"
	"encoding/json"
	"fmt"
	"os"
	"sort"
	"strconv"
	"strings"
	"sync"
	"testing"
	"time"

	"pgregory.net/rapid"
)

// TB is what run functions use to fail; *rapid.T and *testing.T satisfy it.
type TB interface {
	Fatalf(format string, args ...any)
	Logf(format string, args ...any)
}

// Result is what a run function reports about the case it executed.
type Result struct {
	NonTrivial bool
	Classes    []string // labels for the class histogram
	Excluded   string   // non-empty: case matched a known-finding class and was not asserted
}

type Collector struct {
	mu          sync.Mutex
	ID          string
	Rule        string
	Level       string
	Assumptions []string
	start       time.Time
	evals       int
	nt          map[string]struct{}
	classes     map[string]int
	excluded    map[string]int
	samples     []json.RawMessage
	extra       map[string]any
	violations  int
	ann         map[string]any // annotations of the case being executed (written into the replay file)
	replayAnn   map[string]json.RawMessage
}

// Annotate attaches run-time information (e.g. the realised completion order)
// to the current case; it is stored in the replay file if the case fails.
func (c *Collector) Annotate(k string, v any) {
	c.mu.Lock()
	defer c.mu.Unlock()
	if c.ann == nil {
		c.ann = map[string]any{}
	}
	c.ann[k] = v
}

// ReplayAnnotation loads an annotation of the replayed file into out; false if absent.
func (c *Collector) ReplayAnnotation(k string, out any) bool {
	c.mu.Lock()
	defer c.mu.Unlock()
	raw, ok := c.replayAnn[k]
	if !ok {
		return false
	}
	return json.Unmarshal(raw, out) == nil
}

var (
	collMu     sync.Mutex
	collectors = map[string]*Collector{}
)

func Get(id string) *Collector {
	collMu.Lock()
	defer collMu.Unlock()
	c, ok := collectors[id]
	if !ok {
		c = &Collector{ID: id, Level: "exploration", start: time.Now(), nt: map[string]struct{}{}, classes: map[string]int{}, excluded: map[string]int{}, extra: map[string]any{}}
		collectors[id] = c
	}
	return c
}

func (c *Collector) SetExtra(k string, v any) {
	c.mu.Lock()
	defer c.mu.Unlock()
	c.extra[k] = v
}

func (c *Collector) AddExtra(k string, n int) {
	c.mu.Lock()
	defer c.mu.Unlock()
	cur, _ := c.extra[k].(int)
	c.extra[k] = cur + n
}

func (c *Collector) record(prog []byte, r Result) {
	c.mu.Lock()
	defer c.mu.Unlock()
	c.evals++
	for _, cl := range r.Classes {
		c.classes[cl]++
	}
	if r.Excluded != "" {
		c.excluded[r.Excluded]++
	}
	if r.NonTrivial {
		h := sha256.Sum256(prog)
		k := hex.EncodeToString(h[:16])
		if _, ok := c.nt[k]; !ok {
			c.nt[k] = struct{}{}
			if len(c.samples) < 3 && len(prog) < 6000 {
				c.samples = append(c.samples, json.RawMessage(append([]byte(nil), prog...)))
			}
		}
	}
}

// Record lets non-rapid loops (enumerations, fuzz targets) feed the collector.
func (c *Collector) Record(prog any, r Result) {
	b, _ := json.Marshal(prog)
	c.record(b, r)
}

type shardEvidence struct {
	ID          string            `json:"property_id"`
	Level       string            `json:"level"`
	Rule        string            `json:"rule"`
	Assumptions []string          `json:"assumptions"`
	Evals       int               `json:"evaluations"`
	NT          []string          `json:"nt_keys"`
	Classes     map[string]int    `json:"classes"`
	Excluded    map[string]int    `json:"excluded"`
	Samples     []json.RawMessage `json:"samples"`
	Extra       map[string]any    `json:"extra"`
	Violations  int               `json:"violations"`
	WallS       float64           `json:"wall_s"`
}

// Flush writes every collector to $VERIF_EVIDENCE_OUT.<id>.json (shard files
// merged by the driver).
func Flush() {
	base := os.Getenv("VERIF_EVIDENCE_OUT")
	if base == "" {
		return
	}
	collMu.Lock()
	defer collMu.Unlock()
	for id, c := range collectors {
		c.mu.Lock()
		keys := make([]string, 0, len(c.nt))
		for k := range c.nt {
			keys = append(keys, k)
		}
		sort.Strings(keys)
		se := shardEvidence{ID: id, Level: c.Level, Rule: c.Rule, Assumptions: c.Assumptions, Evals: c.evals, NT: keys, Classes: c.classes, Excluded: c.excluded, Samples: c.samples, Extra: c.extra, Violations: c.violations, WallS: time.Since(c.start).Seconds()}
		c.mu.Unlock()
		b, _ := json.MarshalIndent(se, "", " ")
		_ = os.WriteFile(base+"."+id+".json", b, 0o644)
	}
}

// Main is a TestMain body: run, flush evidence, exit.
func Main(m *testing.M) {
	code := m.Run()
	worker := false
	for _, a := range os.Args {
		if strings.HasPrefix(a, "-test.fuzzworker") {
			worker = true
		}
	}
	if !worker { // fuzz workers are re-executions of the binary; only the coordinator reports
		Flush()
	}
	os.Exit(code)
}

func Tier() string {
	if t := os.Getenv("VERIF_TIER"); t != "" {
		return t
	}
	return "quick"
}

func Thorough() bool { return Tier() == "thorough" }

// Scale picks a size parameter by tier.
func Scale(quick, thorough int) int {
	if Thorough() {
		return thorough
	}
	return quick
}

func EnvInt(k string, def int) int {
	if v := os.Getenv(k); v != "" {
		if n, err := strconv.Atoi(v); err == nil {
			return n
		}
	}
	return def
}

type replayFile struct {
	Property    string                     `json:"property"`
	Message     string                     `json:"message,omitempty"`
	Program     json.RawMessage            `json:"program"`
	Annotations map[string]json.RawMessage `json:"annotations,omitempty"`
}

func writeReplay(path, id, msg string, prog []byte, ann map[string]any) {
	if path == "" {
		return
	}
	rf := replayFile{Property: id, Message: msg, Program: prog}
	if len(ann) > 0 {
		rf.Annotations = map[string]json.RawMessage{}
		for k, v := range ann {
			if b, err := json.Marshal(v); err == nil {
				rf.Annotations[k] = b
			}
		}
	}
	b, _ := json.MarshalIndent(rf, "", " ")
	tmp := path + ".tmp"
	if err := os.WriteFile(tmp, b, 0o644); err == nil {
		_ = os.Rename(tmp, path)
	}
}

// Check runs one property: with VERIF_REPLAY_IN set it replays that program
// (bypassing rapid); otherwise it drives gen/run with rapid. On every failing
// execution the program is written to VERIF_REPLAY_OUT, so after shrinking the
// file holds the minimal reproduction. Before every execution the program is
// written to VERIF_REPLAY_OUT+".current" when VERIF_WAL=1 (crash attribution).
func Check[P any](t *testing.T, id string, gen func(*rapid.T) P, run func(tb TB, p P) Result) {
	coll := Get(id)
	if in := os.Getenv("VERIF_REPLAY_IN"); in != "" {
		b, err := os.ReadFile(in)
		if err != nil {
			t.Fatalf("replay: %v", err)
		}
		var rf replayFile
		if err := json.Unmarshal(b, &rf); err != nil {
			t.Fatalf("replay: %v", err)
		}
		if rf.Property != "" && rf.Property != id {
			t.Skipf("replay file is for %s", rf.Property)
		}
		var p P
		if err := json.Unmarshal(rf.Program, &p); err != nil {
			t.Fatalf("replay: %v", err)
		}
		coll.mu.Lock()
		coll.replayAnn = rf.Annotations
		coll.mu.Unlock()
		r := run(t, p)
		coll.record(rf.Program, r)
		return
	}
	out := os.Getenv("VERIF_REPLAY_OUT")
	wal := os.Getenv("VERIF_WAL") == "1"
	rapid.Check(t, func(rt *rapid.T) {
		p := gen(rt)
		prog, err := json.Marshal(p)
		if err != nil {
			rt.Fatalf("harness: program not serialisable: %v", err)
		}
		if wal && out != "" {
			_ = os.WriteFile(out+".current", prog, 0o644)
		}
		coll.mu.Lock()
		coll.ann = nil
		coll.mu.Unlock()
		done := false
		defer func() {
			if done {
				return
			}
			r := recover()
			if r != nil && fmt.Sprintf("%T", r) == "rapid.invalidData" {
				panic(r)
			}
			msg := fmt.Sprint(r)
			coll.mu.Lock()
			coll.violations++
			ann := coll.ann
			coll.mu.Unlock()
			writeReplay(out, id, msg, prog, ann)
			if r != nil {
				panic(r)
			}
		}()
		res := run(rt, p)
		done = true
		coll.record(prog, res)
	})
}

// RunReplayOnly is for tests that only make sense under rapid (no replay).
func Replaying() bool { return os.Getenv("VERIF_REPLAY_IN") != "" }
