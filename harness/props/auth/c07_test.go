package auth

import (
	"bytes"
	"context"
	"encoding/json"
	"fmt"
	"strings"
	"testing"
	"unicode/utf8"

	"github.com/ipfs/go-cid"
	ic "github.com/libp2p/go-libp2p/core/crypto"
	mh "github.com/multiformats/go-multihash"
	"pgregory.net/rapid"

	"berty.tech/go-ipfs-log/entry"
	"berty.tech/go-ipfs-log/iface"

	"verifharness/ev"
	"verifharness/fakeipfs"
	"verifharness/world"
)

func TestMain(m *testing.M) { ev.Main(m) }

var cidPool = func() []cid.Cid {
	out := make([]cid.Cid, 24)
	for i := range out {
		c, err := cid.V1Builder{Codec: cid.DagCBOR, MhType: mh.SHA2_256}.Sum([]byte(fmt.Sprintf("verif-link-%d", i)))
		if err != nil {
			panic(err)
		}
		out[i] = c
	}
	return out
}()

type c07Prog struct {
	Writer  int    `json:"writer"`
	Codec   int    `json:"codec"`
	Payload []byte `json:"payload"`
	LogID   string `json:"logid"`
	Next    []int  `json:"next"` // distinct indices into cidPool
	Refs    []int  `json:"refs"`
	ClockID []byte `json:"clockid"` // empty: default (writer public key)
	Time    int    `json:"time"`
	Mut     string `json:"mut"`
	Arg     int    `json:"arg"`
	Arg2    int    `json:"arg2"`
	LegacyV int    `json:"legacyV,omitempty"` // 1: (default codec) the entry is signed by a writer of format version 1 (the CBOR codec cannot write version 0): a codec that stamps that version before signing; verification uses the plain codec
	InPlace bool   `json:"inPlace"`           // mutate the verified entry object itself (and restore it) instead of a copy
}

var c07Muts = []string{
	"payload-flip", "payload-insert", "payload-delete", "payload-set", "payload-ws-replace", "payload-ws-insert", "payload-ws-delete", "payload-append-nl",
	"logid",
	"next-drop", "next-add", "next-add-dup", "next-add-undef", "next-swap", "next-replace", "next-move-to-refs", "next-recode",
	"refs-drop", "refs-add", "refs-add-dup", "refs-add-undef", "refs-swap", "refs-replace", "refs-recode",
	"v", "clock-id", "clock-time+1", "clock-time-1", "clock-time-0", "clock-time-set",
	"key-other-writer", "key-flip", "key-truncate", "key-extended", "key-garbage", "key-cleared", "sig-other-entry", "sig-flip", "sig-truncate", "sig-other-writer-same-content",
	// a field replaced by its "empty" value
	"payload-cleared", "next-cleared", "refs-cleared", "clock-id-cleared", "clock-id-nil", "clock-id-truncated", "clock-id-extended", "logid-prefix", "v-zero",
}

func genPayload() *rapid.Generator[[]byte] {
	return rapid.OneOf(
		rapid.SliceOfN(rapid.Byte(), 0, 24),
		rapid.Map(rapid.StringN(0, 12, -1), func(s string) []byte { return []byte(s) }),
		rapid.SampledFrom([][]byte{{}, {0}, {0xff}, {0xff, 0x01}, {0xc3, 0x28}, []byte("hello"), {0xe2, 0x82, 0xac}, {0xed, 0xa0, 0x80}, []byte("\"\\\n")}),
		// payloads that are documents themselves (what stores on top of the log write), with insignificant whitespace
		rapid.SampledFrom([][]byte{
			[]byte(`{"op":"PUT","key":"balance", "value":"100 coins"}`), []byte("[1, 2,\t3 ]"), []byte("{ }"), []byte(`{"a": {"b": [true, null]}}` + "\n"),
			[]byte(" 12 "), []byte(`"quoted string"`), []byte("null"), []byte("<a b='c'> x </a>"), []byte("a: 1\nb:  2\n"), []byte("1e3"), []byte("0x10"), []byte("true "),
		}),
	)
}

func genC07(t *rapid.T) c07Prog {
	p := c07Prog{
		Writer:  rapid.IntRange(0, 3).Draw(t, "writer"),
		Codec:   rapid.SampledFrom(c07Codecs).Draw(t, "codec"),
		Payload: genPayload().Draw(t, "payload"),
		LogID:   rapid.StringMatching(`[a-zA-Z0-9/_\-é€]{1,8}`).Draw(t, "logid"),
		Time:    rapid.OneOf(rapid.IntRange(0, 5), rapid.IntRange(0, 1<<40), rapid.IntRange(1<<53-2, 1<<53+8), rapid.SampledFrom([]int{1 << 24, 1<<31 - 1, 1 << 31, 1<<32 - 1, 1 << 32, 1 << 53, 1<<53 + 1, 1 << 60, 1<<62 + 12345, 1<<63 - 2}), rapid.IntRange(0, 1<<62)).Draw(t, "time"),
		Mut:     rapid.SampledFrom(c07Muts).Draw(t, "mut"),
		Arg:     rapid.IntRange(0, 1<<16).Draw(t, "arg"),
		Arg2:    rapid.IntRange(0, 1<<16).Draw(t, "arg2"),
		InPlace: rapid.Bool().Draw(t, "inPlace"),
		LegacyV: rapid.SampledFrom([]int{0, 0, 0, 0, 1}).Draw(t, "legacyV"),
	}
	perm := rapid.Permutation(seqInts(len(cidPool))).Draw(t, "links")
	nn := rapid.IntRange(0, 6).Draw(t, "nnext")
	nr := rapid.IntRange(0, 6).Draw(t, "nrefs")
	p.Next = append([]int{}, perm[:nn]...)
	p.Refs = append([]int{}, perm[nn:nn+nr]...)
	if rapid.Bool().Draw(t, "customClockID") {
		p.ClockID = rapid.SliceOfN(rapid.Byte(), 1, 40).Draw(t, "clockid")
	}
	return p
}

var c07Codecs = []int{0, 1, 2}

func seqInts(n int) []int {
	o := make([]int, n)
	for i := range o {
		o[i] = i
	}
	return o
}

func poolCids(ix []int) []cid.Cid {
	o := make([]cid.Cid, len(ix))
	for i, x := range ix {
		o[i] = cidPool[x%len(cidPool)]
	}
	return o
}

func containsCid(cs []cid.Cid, c cid.Cid) bool {
	for _, x := range cs {
		if x.Equals(c) {
			return true
		}
	}
	return false
}

func freshCid(avoid ...[]cid.Cid) cid.Cid {
	for _, c := range cidPool {
		ok := true
		for _, a := range avoid {
			if containsCid(a, c) {
				ok = false
			}
		}
		if ok {
			return c
		}
	}
	panic("pool exhausted")
}

func jsonSame(a, b []byte) bool {
	x, _ := json.Marshal(string(a))
	y, _ := json.Marshal(string(b))
	return bytes.Equal(x, y)
}

func createEntry(tb ev.TB, api *fakeipfs.Store, writer int, io iface.IO, logID string, payload []byte, next, refs []cid.Cid, clockID []byte, time int) iface.IPFSLogEntry {
	id := world.Identity(writer)
	cl := clockID
	if len(cl) == 0 {
		cl = id.PublicKey
	}
	e, err := entry.CreateEntryWithIO(context.Background(), api.API(), id, &entry.Entry{
		LogID:   logID,
		Payload: payload,
		Next:    next,
		Refs:    refs,
		Clock:   entry.NewLamportClock(cl, time),
	}, nil, io)
	if err != nil {
		tb.Fatalf("harness: CreateEntryWithIO failed: %v", err)
	}
	return e
}

// versionStampIO is the codec of a writer of an older format version: it stamps that version on the entry before it is
// signed and otherwise is the codec it embeds.
type versionStampIO struct {
	iface.IO
	v uint64
}

func (s versionStampIO) PreSign(e iface.IPFSLogEntry) (iface.IPFSLogEntry, error) {
	c := e.Copy()
	c.SetV(s.v)
	return c, nil
}

// C07 — signatures are tamper-evident over every signed field.
func runC07(tb ev.TB, p c07Prog) ev.Result {
	store := fakeipfs.NewStore()
	io := world.IO(world.Codec(p.Codec%3), 0)
	next, refs := poolCids(p.Next), poolCids(p.Refs)
	var writerIO iface.IO = io
	if p.LegacyV > 0 && p.Codec%3 == 0 {
		writerIO = versionStampIO{IO: io, v: uint64(2 - p.LegacyV)}
	}
	e := createEntry(tb, store, p.Writer, writerIO, p.LogID, p.Payload, next, refs, p.ClockID, p.Time)
	if p.LegacyV > 0 && p.Codec%3 == 0 && e.GetV() != uint64(2-p.LegacyV) {
		tb.Fatalf("harness: the entry signed by the version-%d writer carries version %d", 2-p.LegacyV, e.GetV())
	}
	provider := world.Identity(p.Writer).Provider
	if err := e.Verify(provider, io); err != nil {
		tb.Fatalf("freshly created entry does not verify (codec %s): %v", world.Codec(p.Codec%3), err)
	}
	// the mutation is applied either to a copy or to the very object that was just verified (restored afterwards):
	// an implementation must not remember "this object verified" across changes to it
	m := e.Copy()
	var restore func()
	if p.InPlace {
		orig := e.Copy()
		m = e
		restore = func() {
			e.SetPayload(orig.GetPayload())
			e.SetLogID(orig.GetLogID())
			e.SetNext(orig.GetNext())
			e.SetRefs(orig.GetRefs())
			e.SetV(orig.GetV())
			e.SetKey(orig.GetKey())
			e.SetSig(orig.GetSig())
			e.SetClock(orig.GetClock())
		}
	}
	classes := []string{"mut-" + p.Mut, "codec-" + world.Codec(p.Codec%3).String()}
	if p.LegacyV > 0 && p.Codec%3 == 0 {
		classes = append(classes, fmt.Sprintf("signed-as-format-version-%d", 2-p.LegacyV))
	}
	skip := func(why string) ev.Result {
		return ev.Result{Classes: append(classes, "inapplicable-"+why)}
	}
	touchedList := 0
	switch p.Mut {
	case "payload-flip":
		if len(p.Payload) == 0 {
			return skip("empty-payload")
		}
		np := append([]byte(nil), p.Payload...)
		np[p.Arg%len(np)] ^= byte(1 << (p.Arg2 % 8))
		m.SetPayload(np)
	case "payload-insert":
		i := p.Arg % (len(p.Payload) + 1)
		np := append(append(append([]byte(nil), p.Payload[:i]...), byte(p.Arg2)), p.Payload[i:]...)
		m.SetPayload(np)
	case "payload-delete":
		if len(p.Payload) == 0 {
			return skip("empty-payload")
		}
		i := p.Arg % len(p.Payload)
		m.SetPayload(append(append([]byte(nil), p.Payload[:i]...), p.Payload[i+1:]...))
	case "payload-ws-replace", "payload-ws-insert", "payload-ws-delete":
		// whitespace that a parser of the payload's own format would not care about
		var at []int
		for i, b := range p.Payload {
			if b == ' ' || b == '\t' || b == '\n' || b == '\r' {
				at = append(at, i)
			}
		}
		if len(at) == 0 {
			return skip("no-whitespace")
		}
		i := at[p.Arg%len(at)]
		np := append([]byte(nil), p.Payload...)
		switch p.Mut {
		case "payload-ws-replace":
			nb := []byte{' ', '\t', '\n', '\r'}[p.Arg2%4]
			if nb == np[i] {
				nb = []byte{' ', '\t', '\n', '\r'}[(p.Arg2+1)%4]
			}
			np[i] = nb
		case "payload-ws-insert":
			np = append(append(append([]byte(nil), np[:i]...), ' '), np[i:]...)
		default:
			np = append(np[:i:i], np[i+1:]...)
		}
		m.SetPayload(np)
	case "payload-append-nl":
		m.SetPayload(append(append([]byte(nil), p.Payload...), []byte{'\n', ' ', '\t'}[p.Arg%3]))
	case "payload-set":
		np := []byte(fmt.Sprintf("other-%d", p.Arg))
		if bytes.Equal(np, p.Payload) {
			return skip("same")
		}
		m.SetPayload(np)
	case "next-add-dup", "refs-add-dup":
		// a link that is already in the list is added once more (at a generated position)
		list := append([]cid.Cid(nil), e.GetNext()...)
		if p.Mut == "refs-add-dup" {
			list = append([]cid.Cid(nil), e.GetRefs()...)
		}
		touchedList = len(list)
		if len(list) == 0 {
			return skip("empty-list")
		}
		dup := list[p.Arg%len(list)]
		at := p.Arg2 % (len(list) + 1)
		list = append(list[:at:at], append([]cid.Cid{dup}, list[at:]...)...)
		if p.Mut == "next-add-dup" {
			m.SetNext(list)
		} else {
			m.SetRefs(list)
		}
	case "next-add-undef", "refs-add-undef":
		// the undefined identifier (cid.Undef, what a null link of a JSON rendering becomes) is added to the list at a
		// generated position, possibly an empty list: the list has another member then
		list := append([]cid.Cid(nil), e.GetNext()...)
		if p.Mut == "refs-add-undef" {
			list = append([]cid.Cid(nil), e.GetRefs()...)
		}
		touchedList = len(list)
		at := p.Arg2 % (len(list) + 1)
		list = append(list[:at:at], append([]cid.Cid{cid.Undef}, list[at:]...)...)
		if p.Mut == "next-add-undef" {
			m.SetNext(list)
		} else {
			m.SetRefs(list)
		}
	case "logid":
		m.SetLogID(p.LogID + string(rune('a'+p.Arg%26)))
	case "next-drop", "next-swap", "next-replace", "next-move-to-refs", "refs-drop", "refs-swap", "refs-replace", "next-recode", "refs-recode":
		isNext := strings.HasPrefix(p.Mut, "next")
		list := append([]cid.Cid(nil), e.GetNext()...)
		if !isNext {
			list = append([]cid.Cid(nil), e.GetRefs()...)
		}
		touchedList = len(list)
		if len(list) == 0 {
			return skip("empty-list")
		}
		i := p.Arg % len(list)
		switch p.Mut[5:] {
		case "drop":
			list = append(list[:i], list[i+1:]...)
		case "swap":
			if len(list) < 2 {
				return skip("short-list")
			}
			j := (i + 1 + p.Arg2%(len(list)-1)) % len(list)
			list[i], list[j] = list[j], list[i]
		case "replace":
			list[i] = freshCid(e.GetNext(), e.GetRefs())
		case "recode":
			// another identifier over the SAME digest: other codec, or the version-0 form - it names another block
			old := list[i]
			variants := []cid.Cid{cid.NewCidV1(cid.Raw, old.Hash()), cid.NewCidV1(cid.DagProtobuf, old.Hash()), cid.NewCidV1(cid.DagCBOR, old.Hash())}
			if dm, err := mh.Decode(old.Hash()); err == nil && dm.Code == mh.SHA2_256 && dm.Length == 32 {
				variants = append(variants, cid.NewCidV0(old.Hash()))
			}
			nc := variants[p.Arg2%len(variants)]
			if nc.Equals(old) {
				nc = variants[(p.Arg2+1)%len(variants)]
			}
			list[i] = nc
		case "move-to-refs":
			moved := list[i]
			list = append(list[:i], list[i+1:]...)
			m.SetRefs(append(append([]cid.Cid(nil), e.GetRefs()...), moved))
		}
		if isNext {
			m.SetNext(list)
		} else {
			m.SetRefs(list)
		}
	case "next-add":
		touchedList = len(e.GetNext()) + 1
		list := append([]cid.Cid(nil), e.GetNext()...)
		i := p.Arg % (len(list) + 1)
		list = append(append(append([]cid.Cid(nil), list[:i]...), freshCid(e.GetNext(), e.GetRefs())), list[i:]...)
		m.SetNext(list)
	case "refs-add":
		touchedList = len(e.GetRefs()) + 1
		list := append([]cid.Cid(nil), e.GetRefs()...)
		i := p.Arg % (len(list) + 1)
		list = append(append(append([]cid.Cid(nil), list[:i]...), freshCid(e.GetNext(), e.GetRefs())), list[i:]...)
		m.SetRefs(list)
	case "v":
		nv := []uint64{0, 1, 3, 2 + uint64(p.Arg%5) + 1}[p.Arg2%4]
		if nv == e.GetV() { // (an entry signed as an older format version)
			nv = 2
		}
		m.SetV(nv)
	case "clock-id":
		id := append([]byte(nil), e.GetClock().GetID()...)
		id[p.Arg%len(id)] ^= byte(1 << (p.Arg2 % 8))
		m.SetClock(entry.NewLamportClock(id, e.GetClock().GetTime()))
	case "clock-time+1":
		m.SetClock(entry.NewLamportClock(e.GetClock().GetID(), e.GetClock().GetTime()+1))
	case "clock-time-1":
		m.SetClock(entry.NewLamportClock(e.GetClock().GetID(), e.GetClock().GetTime()-1))
	case "clock-time-0":
		if e.GetClock().GetTime() == 0 {
			return skip("time-already-0")
		}
		m.SetClock(entry.NewLamportClock(e.GetClock().GetID(), 0))
	case "clock-time-set":
		nt := p.Arg
		if nt == e.GetClock().GetTime() {
			nt++
		}
		m.SetClock(entry.NewLamportClock(e.GetClock().GetID(), nt))
	case "key-other-writer":
		m.SetKey(world.Identity((p.Writer + 1 + p.Arg%3) % 4).PublicKey)
	case "key-flip":
		k := append([]byte(nil), e.GetKey()...)
		k[p.Arg%len(k)] ^= byte(1 << (p.Arg2 % 8))
		m.SetKey(k)
	case "key-truncate":
		k := e.GetKey()
		m.SetKey(append([]byte(nil), k[:p.Arg%len(k)]...))
	case "key-extended":
		m.SetKey(append(append([]byte(nil), e.GetKey()...), byte(p.Arg2)))
	case "key-garbage":
		m.SetKey([][]byte{bytes.Repeat([]byte{0xff}, 33), bytes.Repeat([]byte{0xff}, 65), []byte("not a key"), {0x04}, {0x02}, bytes.Repeat([]byte{0}, 65)}[p.Arg%6])
	case "key-cleared":
		m.SetKey(nil)
	case "sig-other-entry":
		o := createEntry(tb, store, p.Writer, io, p.LogID, append([]byte("x"), p.Payload...), next, refs, p.ClockID, p.Time)
		m.SetSig(o.GetSig())
	case "sig-other-writer-same-content":
		o := createEntry(tb, store, (p.Writer+1)%4, io, p.LogID, p.Payload, next, refs, e.GetClock().GetID(), p.Time)
		m.SetSig(o.GetSig())
	case "sig-flip":
		s := append([]byte(nil), e.GetSig()...)
		s[p.Arg%len(s)] ^= byte(1 << (p.Arg2 % 8))
		m.SetSig(s)
	case "sig-truncate":
		s := e.GetSig()
		m.SetSig(append([]byte(nil), s[:p.Arg%len(s)]...))
	case "payload-cleared":
		if len(p.Payload) == 0 {
			return skip("empty-payload")
		}
		m.SetPayload([]byte{})
	case "next-cleared":
		if len(e.GetNext()) == 0 {
			return skip("empty-list")
		}
		touchedList = len(e.GetNext())
		m.SetNext([]cid.Cid{})
	case "refs-cleared":
		if len(e.GetRefs()) == 0 {
			return skip("empty-list")
		}
		touchedList = len(e.GetRefs())
		m.SetRefs(nil)
	case "clock-id-cleared":
		m.SetClock(entry.NewLamportClock([]byte{}, e.GetClock().GetTime()))
	case "clock-id-nil":
		m.SetClock(entry.NewLamportClock(nil, e.GetClock().GetTime()))
	case "clock-id-truncated":
		id := e.GetClock().GetID()
		m.SetClock(entry.NewLamportClock(append([]byte(nil), id[:len(id)-1]...), e.GetClock().GetTime()))
	case "clock-id-extended":
		m.SetClock(entry.NewLamportClock(append(append([]byte(nil), e.GetClock().GetID()...), 0), e.GetClock().GetTime()))
	case "logid-prefix":
		if len(p.LogID) < 2 {
			return skip("short-logid")
		}
		m.SetLogID(p.LogID[:len(p.LogID)-1])
		if !utf8.ValidString(m.GetLogID()) {
			return skip("invalid-utf8-logid")
		}
	case "v-zero":
		m.SetV(0)
	default:
		tb.Fatalf("harness: unknown mutation %q", p.Mut)
	}
	if restore != nil {
		defer restore()
	}
	// known finding C07/payload-json-collision: the signed bytes carry the payload through
	// encoding/json as a string, which maps every invalid UTF-8 byte to U+FFFD.
	if strings.HasPrefix(p.Mut, "payload") && jsonSame(p.Payload, m.GetPayload()) && !bytes.Equal(p.Payload, m.GetPayload()) {
		if knownWitness() == "C07/payload-json-collision" {
			if err := m.Verify(provider, io); err == nil {
				tb.Fatalf("known finding still present: payload %x -> %x verifies", p.Payload, m.GetPayload())
			}
		}
		return ev.Result{Classes: classes, Excluded: "C07/payload-json-collision"}
	}
	// other bytes for the SAME key (secp256k1 parsers ignore the low bit of the 0x04 prefix) are not "a different key"
	if strings.HasPrefix(p.Mut, "key-") {
		// (decided with the curve library's own parser, not through the identity provider under test: a provider that
		// answers from a cache of parsed keys would declare the substituted bytes "the same key")
		if k1, err1 := ic.UnmarshalSecp256k1PublicKey(e.GetKey()); err1 == nil {
			if k2, err2 := ic.UnmarshalSecp256k1PublicKey(m.GetKey()); err2 == nil && k1.Equals(k2) {
				return skip("same-key-other-encoding")
			}
		}
	}
	if err := m.Verify(provider, io); err == nil {
		tb.Fatalf("mutation %s (arg %d/%d) of a signed entry still verifies (codec %s): payload %x -> %x", p.Mut, p.Arg, p.Arg2, world.Codec(p.Codec%3), p.Payload, m.GetPayload())
	}
	// the untouched original still verifies (the mutation did not alias into it)
	if restore != nil {
		restore()
	}
	if err := e.Verify(provider, io); err != nil {
		tb.Fatalf("original entry stopped verifying after mutating a copy / restoring it: %v", err)
	}
	nonASCII := false
	for _, b := range p.Payload {
		if b >= 0x80 {
			nonASCII = true
		}
	}
	return ev.Result{NonTrivial: touchedList >= 2 || nonASCII, Classes: classes}
}

func TestC07(t *testing.T) {
	c := ev.Get("C07")
	c.Rule = "rapid generates an entry (arbitrary binary payload incl. invalid UTF-8, valid-UTF-8 log id, 0-6 predecessors and 0-6 references drawn without repetition from a CID pool, default or custom clock id, time over the whole int range with weight on 2^24, 2^31, 2^32, 2^53 and their neighbours, writer 0-3, default/link-key/legacy codec), creates and signs it with CreateEntryWithIO (with the default codec in a fifth of the cases as a writer of format version 1 would: a codec that stamps that version before signing), checks it verifies, then applies one of 40 single-field mutations (incl. keys that are flipped, truncated, extended, garbage or cleared) to a copy and requires Verify to fail. Non-trivial = the mutation touched a list of length >= 2 or the payload has a non-ASCII byte; distinct = distinct program. Payload mutations whose json.Marshal(string(payload)) equals the original's are the known finding C07/payload-json-collision: excluded and counted. Link mutations include re-coding a link over the same digest (other codec, version 0); whether substituted key bytes denote the same key is decided by the curve library's parser, not by the provider under test."
	c.Assumptions = []string{"log ids are valid UTF-8 (they are names chosen by the application)", "signing is deterministic RFC 6979 ECDSA over secp256k1 with the harness's fixed keys"}
	ev.Check(t, "C07", genC07, runC07)
}
