package auth

import (
	"testing"

	"pgregory.net/rapid"

	"verifharness/ev"
)

// FuzzC07: the same generator and oracle as TestC07, driven by Go's coverage-guided
// fuzzer (the fuzz bytes are rapid's bit stream, so a mutation of the input is a
// mutation of the generated entry / field mutation). Thorough tier only; a saved
// crasher is replayed with ./check C07 --replay <file>.
func FuzzC07(f *testing.F) {
	coll := ev.Get("C07")
	f.Fuzz(rapid.MakeFuzz(func(t *rapid.T) {
		p := genC07(t)
		coll.Record(p, runC07(t, p))
	}))
}

// FuzzC06: as TestC06 (generated source log, corruption plan, policy, destination).
func FuzzC06(f *testing.F) {
	coll := ev.Get("C06")
	f.Fuzz(rapid.MakeFuzz(func(t *rapid.T) {
		p := genC06(t)
		coll.Record(p, runC06(t, p))
	}))
}
