package auth

import (
	"bytes"
	"context"
	"errors"
	"fmt"
	"sync"
	"testing"

	"pgregory.net/rapid"

	ipfslog "berty.tech/go-ipfs-log"
	"berty.tech/go-ipfs-log/accesscontroller"
	"berty.tech/go-ipfs-log/entry"
	idp "berty.tech/go-ipfs-log/identityprovider"
	"berty.tech/go-ipfs-log/iface"

	"verifharness/ev"
	"verifharness/sim"
	"verifharness/world"
)

type corruption struct {
	Pos  int    `json:"pos"`  // index into the source's entries (mod)
	Kind string `json:"kind"` // see c06Kinds
}

type c06Prog struct {
	World    sim.Prog     `json:"world"`
	Src      int          `json:"src"`
	Dst      int          `json:"dst"`
	Corrupt  []corruption `json:"corrupt"`
	Policy   string       `json:"policy"` // none | writer | payload | hash
	PolArg   int          `json:"polarg"`
	Deny     bool         `json:"denyAppend"`         // also try an append the policy denies
	Conc     int          `json:"conc"`               // LogOptions.Concurrency of the destination (0 = default)
	Bound    int          `json:"bound,omitempty"`    // 0: unbounded merge; k > 0: the merge carries the size bound (k-1) mod (candidates+3)
	SharedAC bool         `json:"sharedAC,omitempty"` // the source log is guarded by the very access-controller object of the destination (it was built from entries, so the controller never saw them)
	Window   int          `json:"window,omitempty"`   // k > 0: the destination is a window of its history: only its newest 1 + (k-1) mod (len-1) entries
	Stranger int          `json:"stranger,omitempty"` // 0: no; 1, 2: before anything else the source is offered to a replica of ANOTHER codec configuration (other link key / link key where the writers have none / none where they have one); whatever that replica answers, the entries remain what Append produced
	InPlace  bool         `json:"inPlace"`            // corrupt the source's entry objects themselves (they were verified by an earlier merge) instead of copies
}

var c06Kinds = []string{"sig-removed", "key-removed", "sig-other-entry", "sig-flip", "payload-changed", "foreign-key", "key-garbage", "key-truncated", "foreign-logid", "next-changed", "time-changed", "identity-removed"}

func genC06(t *rapid.T) c06Prog {
	cfg := sim.GenConfig{MaxReplicas: 3, MaxOps: ev.Scale(24, 50), MinOps: 2, Codecs: []int{0, 1, 2}, AppendBias: 3, NoRebuild: true, WithLoad: true, LargeOneIn: ev.Scale(128, 96)}
	w := sim.Gen(t, cfg)
	p := c06Prog{World: w}
	p.Src = rapid.IntRange(0, w.Replicas-1).Draw(t, "src")
	p.Dst = rapid.IntRange(0, w.Replicas-1).Draw(t, "dst")
	nc := rapid.SampledFrom([]int{0, 1, 1, 1, 2, 3, 40}).Draw(t, "ncorrupt")
	for i := 0; i < nc; i++ {
		p.Corrupt = append(p.Corrupt, corruption{Pos: rapid.IntRange(0, 1<<12).Draw(t, "pos"), Kind: rapid.SampledFrom(c06Kinds).Draw(t, "kind")})
	}
	p.Policy = rapid.SampledFrom([]string{"none", "none", "writer", "payload", "hash", "context"}).Draw(t, "policy")
	p.PolArg = rapid.IntRange(0, 1<<12).Draw(t, "polarg")
	p.Deny = rapid.Bool().Draw(t, "denyAppend")
	p.Conc = rapid.SampledFrom([]int{0, 0, 1, 2, 3, 4, 5, 7}).Draw(t, "conc")
	p.InPlace = rapid.IntRange(0, 2).Draw(t, "inPlace") == 0
	p.SharedAC = rapid.IntRange(0, 2).Draw(t, "sharedAC") == 0
	p.Stranger = rapid.SampledFrom([]int{0, 0, 1, 2}).Draw(t, "stranger")
	p.Window = rapid.SampledFrom([]int{0, 0, 0, 1, 2, 3, 5, 8}).Draw(t, "window")
	if rapid.IntRange(0, 3).Draw(t, "bounded") == 0 {
		p.Bound = rapid.IntRange(1, 1<<10).Draw(t, "bound")
	}
	return p
}

// policy is a pure, concurrency-safe access controller built from generated data.
type policy struct {
	kind    string
	writer  string          // identity id denied
	prefix  []byte          // payload prefix denied
	hashes  map[string]bool // entry hashes denied
	denyAll bool
	// kind "context": the decision looks at the log through the context the library hands over; it permits an
	// entry iff that log holds exactly the entries the destination held before the operation
	ctxWant world.Set
	ctxSeen string // first deviation observed (diagnostics)
	ctxMu   sync.Mutex
}

var errDenied = errors.New("denied by generated policy")

func (p *policy) denies(e iface.IPFSLogEntry) bool {
	if p.denyAll {
		return true
	}
	switch p.kind {
	case "writer":
		return e.GetIdentity() != nil && e.GetIdentity().ID == p.writer
	case "payload":
		return bytes.HasPrefix(e.GetPayload(), p.prefix)
	case "hash":
		return p.hashes[e.GetHash().String()]
	}
	return false
}

func (p *policy) CanAppend(le accesscontroller.LogEntry, _ idp.Interface, actx accesscontroller.CanAppendAdditionalContext) error {
	e, ok := le.(iface.IPFSLogEntry)
	if !ok {
		return nil
	}
	if p.kind == "context" && !p.denyAll && p.ctxWant != nil {
		got := world.Set{}
		if actx != nil {
			for _, x := range actx.GetLogEntries() {
				if he, ok := x.(iface.IPFSLogEntry); ok {
					got.Add(he.GetHash().String())
				}
			}
		}
		if !got.Equal(p.ctxWant) {
			p.ctxMu.Lock()
			if p.ctxSeen == "" {
				p.ctxSeen = fmt.Sprintf("the access controller was shown a log of %d entries while deciding on %s, the log held %d before the operation", len(got), world.Short(e.GetHash().String()), len(p.ctxWant))
			}
			p.ctxMu.Unlock()
			return errDenied
		}
		return nil
	}
	if p.denies(e) {
		return errDenied
	}
	return nil
}

// C06 — merge admits only verified, authorised entries and is all-or-nothing.
func runC06(tb ev.TB, p c06Prog) ev.Result {
	ctx := context.Background()
	w := sim.Run(tb, &p.World, func(tb ev.TB, w *sim.World, info *sim.OpInfo) {
		switch info.Op.Kind {
		case "append", "join", "load":
			if info.Op.Kind == "load" && p.World.Codec == 2 {
				break // the legacy codec cannot read back the v2 entries it writes (not claimed)
			}
			sim.MustOK(tb, info) // includes: entries produced by Append merge under this codec
		}
		if info.Refused && !info.Skipped && info.Err == nil {
			tb.Fatalf("op #%d: merge of a log with an unsigned candidate entry was not refused", info.Index)
		}
		if info.Op.Kind == "append" {
			r := w.Reps[info.Dst]
			if err := info.Entry.Verify(world.Identity(r.Writer).Provider, w.IO); err != nil {
				tb.Fatalf("entry returned by Append does not verify under codec %s: %v", world.Codec(p.World.Codec), err)
			}
		}
	})
	codec := world.Codec(p.World.Codec)
	classes := []string{"codec-" + codec.String(), "policy-" + p.Policy}
	n := len(w.Reps)
	si, di := p.Src%n, p.Dst%n
	if si == di {
		di = (si + 1) % n
	}
	src := w.Reps[si]
	dstModel := w.Reps[di].Model
	// the destination may be a window of its history (what a size-bounded merge or a length-limited load leaves): it
	// then holds only the newest k entries; older ones it once pointed to can come back as candidates
	windowed := false
	var windowEntries []iface.IPFSLogEntry
	if p.Window > 0 && len(dstModel) >= 2 && w.Reg.StrictTotalOn(w.Order, dstModel) {
		vals := w.Reps[di].Log.Values().Slice()
		if len(vals) == len(dstModel) {
			k := 1 + (p.Window-1)%(len(vals)-1)
			windowEntries = vals[len(vals)-k:]
			dstModel = world.SetOf(world.SliceHashes(windowEntries))
			windowed = true
		}
	}

	// (a0) the source may first have been offered to a replica configured differently
	if p.Stranger > 0 && len(src.Model) > 0 {
		var sio iface.IO
		switch {
		case p.Stranger == 1:
			sio = world.IO(world.CodecLinkKey, 1)
		case codec == world.CodecLinkKey:
			sio = world.IO(world.CodecDefault, 0)
		default:
			sio = world.IO(world.CodecLinkKey, 2)
		}
		stranger, err := world.NewLog(w.Store.API(), (src.Writer+2)%4, sim.LogID, w.Order, sio, nil)
		if err != nil {
			tb.Fatalf("harness: %v", err)
		}
		if _, err := stranger.Join(src.Log, -1); err != nil {
			classes = append(classes, "stranger-refused")
		} else {
			classes = append(classes, "stranger-accepted")
		}
		for _, e := range src.Log.GetEntries().Slice() {
			if err := e.Verify(world.Identity(0).Provider, w.IO); err != nil {
				tb.Fatalf("entry %s produced by Append no longer verifies under its own codec (%s) after the log was offered to a replica of another codec configuration: %v", world.Short(e.GetHash().String()), codec, err)
			}
		}
	}
	// (a) every appended entry merges into a fresh permissive replica with the same codec
	fresh := w.NewEmptyLog(tb, (src.Writer+1)%4, sim.LogID)
	if _, err := fresh.Join(src.Log, -1); err != nil {
		tb.Fatalf("valid log does not merge into a fresh permissive replica (codec %s): %v", codec, err)
	}
	if !world.SetOf(world.Hashes(fresh.GetEntries())).Equal(src.Model) {
		tb.Fatalf("fresh replica did not receive all entries")
	}

	// what every identifier stands for, taken before anything is tampered with
	genuine := map[string]string{}
	for _, l := range []*ipfslog.IPFSLog{src.Log, w.Reps[di].Log} {
		for _, e := range l.GetEntries().Slice() {
			genuine[e.GetHash().String()] = world.ContentDigest(e)
		}
	}
	// (b) corrupted source
	srcHashes := src.Model.Sorted()
	if len(srcHashes) == 0 {
		return ev.Result{Classes: append(classes, "empty-source")}
	}
	corrupted := map[string]string{} // hash -> kind
	for _, c := range p.Corrupt {
		h := srcHashes[c.Pos%len(srcHashes)]
		if _, dup := corrupted[h]; !dup {
			corrupted[h] = c.Kind
		}
	}
	// policy
	pol := &policy{kind: p.Policy, hashes: map[string]bool{}}
	switch p.Policy {
	case "writer":
		pol.writer = world.Identity(p.PolArg % 4).ID
	case "payload":
		pol.prefix = []byte{byte('a' + p.PolArg%6)}
	case "hash":
		for i := 0; i < 1+p.PolArg%3; i++ {
			pol.hashes[srcHashes[(p.PolArg+i*7)%len(srcHashes)]] = true
		}
	}
	// destination: a fresh log that holds exactly dst's entries, with the generated policy
	dstRep := w.Reps[di]
	dstEntries, dstHeads := dstRep.Log.GetEntries(), dstRep.Log.Heads().Slice()
	if windowed {
		dstEntries = entry.NewOrderedMapFromEntries(windowEntries)
		dstHeads = nil
		hs := w.Reg.ModelHeads(dstModel)
		for _, e := range windowEntries {
			if hs.Has(e.GetHash().String()) {
				dstHeads = append(dstHeads, e)
			}
		}
		classes = append(classes, "destination-is-a-window")
	}
	dst, err := world.NewLog(w.Store.API(), dstRep.Writer, sim.LogID, w.Order, w.IO, &ipfslog.LogOptions{
		Entries: dstEntries, Heads: dstHeads, AccessController: pol, Concurrency: uint(p.Conc),
		Clock: entry.NewLamportClock(dstRep.Log.Clock.GetID(), dstRep.Log.Clock.GetTime()),
	})
	if err != nil {
		tb.Fatalf("harness: %v", err)
	}
	// a twin of the destination (same entries, heads, clock, policy, options) that will NOT see the merge under test:
	// if that merge is rejected, destination and twin must answer every later operation alike (see the end of the case)
	twin, err := world.NewLog(w.Store.API(), dstRep.Writer, sim.LogID, w.Order, w.IO, &ipfslog.LogOptions{
		Entries: entry.NewOrderedMapFromEntries(dstEntries.Slice()), Heads: append([]iface.IPFSLogEntry(nil), dstHeads...), AccessController: pol, Concurrency: uint(p.Conc),
		Clock: entry.NewLamportClock(dstRep.Log.Clock.GetID(), dstRep.Log.Clock.GetTime()),
	})
	if err != nil {
		tb.Fatalf("harness: %v", err)
	}
	// source log object with corrupted copies (children keep pointing at the original hashes)
	var srcEntries []iface.IPFSLogEntry
	other := ""
	for _, h := range srcHashes {
		if other == "" || h != srcHashes[0] {
			other = h
		}
	}
	origSig := map[string][]byte{}
	for _, e := range src.Log.GetEntries().Slice() {
		origSig[e.GetHash().String()] = append([]byte(nil), e.GetSig()...)
	}
	for _, e := range src.Log.GetEntries().Slice() {
		h := e.GetHash().String()
		kind, bad := corrupted[h]
		if !bad {
			srcEntries = append(srcEntries, e)
			continue
		}
		c := e.Copy()
		if p.InPlace && !dstModel.Has(h) {
			c = e // the very object the fresh replica verified a moment ago (only entries the destination does not share)
		}
		switch kind {
		case "sig-removed":
			c.SetSig(nil)
		case "key-removed":
			c.SetKey(nil)
		case "sig-other-entry":
			// (signatures as they were before any corruption: with in-place corruption an earlier step may already
			// have given the donor another signature - possibly this entry's own, which would leave it intact)
			var donor iface.IPFSLogEntry
			for _, o := range src.Log.GetEntries().Slice() {
				if o.GetHash() != e.GetHash() && !bytes.Equal(origSig[o.GetHash().String()], origSig[h]) {
					donor = o
				}
			}
			if donor == nil {
				c.SetSig(append([]byte{0x30}, e.GetSig()[1:]...))
				s := append([]byte(nil), e.GetSig()...)
				s[len(s)-1] ^= 1
				c.SetSig(s)
			} else {
				c.SetSig(origSig[donor.GetHash().String()])
			}
		case "sig-flip":
			s := append([]byte(nil), e.GetSig()...)
			s[len(s)/2] ^= 0x10
			c.SetSig(s)
		case "payload-changed":
			c.SetPayload(append([]byte("tampered-"), e.GetPayload()...))
		case "foreign-key":
			c.SetKey(world.Identity(5).PublicKey)
		case "key-garbage":
			c.SetKey(bytes.Repeat([]byte{0xff}, len(e.GetKey())))
		case "key-truncated":
			c.SetKey(append([]byte(nil), e.GetKey()[:len(e.GetKey())/2]...))
		case "foreign-logid":
			c.SetLogID("some-other-log")
		case "identity-removed":
			// the identity record is not part of the signed content: the entry still verifies under its key, and
			// whether it may be merged is for the access controller to say like for any other entry
			c.SetIdentity(nil)
		case "next-changed":
			c.SetNext(append(append(e.GetNext()[:0:0], e.GetNext()...), cidPool[0]))
		case "time-changed":
			c.SetClock(entry.NewLamportClock(e.GetClock().GetID(), e.GetClock().GetTime()+1))
		}
		srcEntries = append(srcEntries, c)
	}
	srcOpts := &ipfslog.LogOptions{Entries: entry.NewOrderedMapFromEntries(srcEntries), Heads: pickHeads(srcEntries, world.Hashes(src.Log.Heads()))}
	if p.SharedAC {
		srcOpts.AccessController = pol
	}
	srcLog, err := world.NewLog(w.Store.API(), src.Writer, sim.LogID, w.Order, w.IO, srcOpts)
	if err != nil {
		tb.Fatalf("harness: %v", err)
	}
	// candidates, following the rule of the statement: entries of the source reachable from its heads
	// through entries the destination does not hold and that carry the log's id
	byHash := map[string]iface.IPFSLogEntry{}
	for _, e := range srcEntries {
		byHash[e.GetHash().String()] = e
	}
	cands := world.Set{}
	stack := world.Hashes(srcLog.Heads())
	visited := world.Set{}
	for len(stack) > 0 {
		h := stack[0]
		stack = stack[1:]
		if visited.Has(h) {
			continue
		}
		visited.Add(h)
		e, ok := byHash[h]
		if !ok || dstModel.Has(h) || e.GetLogID() != sim.LogID {
			continue
		}
		cands.Add(h)
		for _, nx := range e.GetNext() {
			stack = append(stack, nx.String())
		}
	}
	invalid := []string{}
	invalidNonHead := false
	heads := world.SetOf(world.Hashes(srcLog.Heads()))
	for h := range cands {
		kind, bad := corrupted[h]
		isInvalid := (bad && kind != "foreign-logid" && kind != "identity-removed") || pol.denies(byHash[h])
		if isInvalid {
			invalid = append(invalid, h)
			if !heads.Has(h) {
				invalidNonHead = true
			}
		}
	}
	if p.Policy == "context" {
		pol.ctxWant = dstModel.Clone()
	}
	before := takeSnap(dst)
	probeBefore := appendProbe(tb, w, dst, pol)
	size := -1
	if p.Bound > 0 {
		size = (p.Bound - 1) % (len(cands) + 3) // a size-bounded merge validates every candidate all the same
		classes = append(classes, "size-bounded-merge")
	}
	ret, jerr := dst.Join(srcLog, size)
	pol.ctxWant = nil // the context policy is about this merge only
	after := takeSnap(dst)
	if len(invalid) > 0 {
		classes = append(classes, "merge-rejected")
		if jerr == nil {
			tb.Fatalf("merge accepted a source with %d invalid/denied candidate(s) (e.g. %s: %s; policy %s; codec %s)", len(invalid), world.Short(invalid[0]), corrupted[invalid[0]], p.Policy, codec)
		}
		if d := before.diff(after); d != "" {
			tb.Fatalf("rejected merge changed the log: %s", d)
		}
		if pa := appendProbe(tb, w, dst, pol); pa != probeBefore {
			tb.Fatalf("rejected merge changed what a following append produces: %s -> %s", probeBefore, pa)
		}
	} else {
		classes = append(classes, "merge-accepted")
		if jerr != nil {
			tb.Fatalf("merge of a source whose %d candidates are all valid and permitted failed: %v (corrupted non-candidates: %d, policy %s %s)", len(cands), jerr, len(corrupted), p.Policy, pol.ctxSeen)
		}
		_ = ret
		want := dstModel.Clone()
		want.Union(cands)
		if got := world.SetOf(after.Entries); size < 0 && !got.Equal(want) {
			tb.Fatalf("accepted merge: entries %v, want destination ∪ candidates %v", world.Shorts(got.Sorted()), world.Shorts(want.Sorted()))
		} else if size >= 0 {
			// which entries a bounded merge keeps is C16's business; here: nothing foreign, and the right number
			for h := range got {
				if !want.Has(h) {
					tb.Fatalf("accepted bounded merge holds %s, which is neither the destination's nor a candidate", world.Short(h))
				}
			}
			if n := len(want); (size < n && len(got) != size) || (size >= n && len(got) != n) {
				tb.Fatalf("accepted merge with bound %d over %d entries holds %d", size, n, len(got))
			}
		}
	}
	// never: a head that is not an entry of the log (say, a head of the source that was not merged)
	for _, h := range dst.Heads().Slice() {
		if _, ok := dst.Get(h.GetHash()); !ok {
			tb.Fatalf("after the merge the log has head %s (log id %q), which is not one of its entries", world.Short(h.GetHash().String()), h.GetLogID())
		}
	}
	// and after an unbounded merge the heads are the entries nothing in the log points to (entries of the source
	// that were skipped - another log id - neither become heads nor supersede any)
	if jerr == nil && size < 0 {
		named := world.Set{}
		for _, e := range dst.GetEntries().Slice() {
			for _, nx := range e.GetNext() {
				named.Add(nx.String())
			}
		}
		wantHeads := world.Set{}
		for _, e := range dst.GetEntries().Slice() {
			if !named.Has(e.GetHash().String()) {
				wantHeads.Add(e.GetHash().String())
			}
		}
		if got := world.SetOf(world.Hashes(dst.Heads())); !got.Equal(wantHeads) {
			tb.Fatalf("after the merge the heads are %v, the entries nothing in the log points to are %v", world.Shorts(got.Sorted()), world.Shorts(wantHeads.Sorted()))
		}
	}
	// never: under an identifier the log already held (or one it accepted), an object with other content - the source
	// may carry a tampered object under the identifier of an entry the destination holds; it is not a candidate, and
	// nothing of it may surface in the entries, heads or values the log hands out
	for what, es := range map[string][]iface.IPFSLogEntry{"entries": dst.GetEntries().Slice(), "heads": dst.Heads().Slice(), "values": dst.Values().Slice()} {
		for _, e := range es {
			h := e.GetHash().String()
			if want, ok := genuine[h]; ok && world.ContentDigest(e) != want && (dstModel.Has(h) || jerr == nil) {
				tb.Fatalf("after the merge (error: %v) the %s of the log hold an object for %s whose content is not that entry's (log id %q, payload %q): held before: %v, tampered in the source as: %q", jerr, what, world.Short(h), e.GetLogID(), e.GetPayload(), dstModel.Has(h), corrupted[h])
			}
		}
	}
	// never: a foreign log id, an unverifiable or denied entry inside the log
	for _, e := range dst.GetEntries().Slice() {
		h := e.GetHash().String()
		if e.GetLogID() != sim.LogID {
			tb.Fatalf("log holds entry %s of log %q", world.Short(h), e.GetLogID())
		}
		if dstModel.Has(h) {
			continue
		}
		if err := e.Verify(world.Identity(0).Provider, w.IO); err != nil {
			tb.Fatalf("merged entry %s does not verify: %v", world.Short(h), err)
		}
		if pol.denies(e) {
			tb.Fatalf("merged entry %s is denied by the access controller", world.Short(h))
		}
	}
	// (c) an append the controller denies
	if p.Deny {
		classes = append(classes, "denied-append")
		pol.denyAll = true
		b := takeSnap(dst)
		_, aerr := dst.Append(ctx, []byte("denied"), nil)
		_, _ = twin.Append(ctx, []byte("denied"), nil) // the twin lives through everything but the merge under test
		pol.denyAll = false
		if aerr == nil {
			tb.Fatalf("append denied by the access controller returned no error")
		}
		a := takeSnap(dst)
		b.ClockT, a.ClockT = 0, 0 // the statement covers entries and heads
		if d := b.diff(a); d != "" {
			tb.Fatalf("denied append changed the log: %s", d)
		}
	}
	// (d) "observably unchanged" includes what the log does next: after a rejected merge the destination and its twin
	// (which never saw that merge) go through the same further operations - a merge of the honest source, an append, the
	// same merge again - and must agree on every outcome and every snapshot
	if len(invalid) > 0 && jerr != nil {
		classes = append(classes, "rejected-then-continued")
		step := func(what string, op func(l *ipfslog.IPFSLog) (string, error)) {
			rd, ed := op(dst)
			rt, et := op(twin)
			if (ed == nil) != (et == nil) {
				tb.Fatalf("after a rejected merge, %s: the log answers error=%v, a log that never saw the rejected merge answers error=%v", what, ed, et)
			}
			if rd != rt {
				tb.Fatalf("after a rejected merge, %s gives %s, on a log that never saw the rejected merge %s", what, rd, rt)
			}
			if d := takeSnap(twin).diff(takeSnap(dst)); d != "" {
				tb.Fatalf("after a rejected merge and %s the log differs from one that never saw the rejected merge: %s", what, d)
			}
		}
		honest := func(l *ipfslog.IPFSLog) (string, error) { _, err := l.Join(src.Log, -1); return "", err }
		// first a merge that brings nothing new (a peer holding exactly what the destination held): whatever the
		// rejected candidates pointed to must still be where it was
		peer, err := world.NewLog(w.Store.API(), dstRep.Writer, sim.LogID, w.Order, w.IO, &ipfslog.LogOptions{
			Entries: entry.NewOrderedMapFromEntries(dstEntries.Slice()), Heads: append([]iface.IPFSLogEntry(nil), dstHeads...)})
		if err != nil {
			tb.Fatalf("harness: %v", err)
		}
		step("a merge of a peer that holds what the log held", func(l *ipfslog.IPFSLog) (string, error) { _, err := l.Join(peer, -1); return "", err })
		if d := before.diff(takeSnap(dst)); d != "" && !p.Deny {
			tb.Fatalf("a rejected merge followed by a merge that brings nothing new changed the log: %s", d)
		}
		step("a merge of the honest source", honest)
		step("an append", func(l *ipfslog.IPFSLog) (string, error) {
			e, err := l.Append(ctx, []byte("after"), &ipfslog.AppendOptions{PointerCount: 1 + p.PolArg%4})
			if err != nil {
				return "", err
			}
			return fmt.Sprintf("next=%v time=%d", world.Shorts(world.SortedCopy(world.CidHashes(e.GetNext()))), e.GetClock().GetTime()), nil
		})
		step("a second merge of the honest source", honest)
	}
	nt := invalidNonHead && len(cands) >= 2
	return ev.Result{NonTrivial: nt, Classes: classes}
}

func pickHeads(es []iface.IPFSLogEntry, heads []string) []iface.IPFSLogEntry {
	hs := world.SetOf(heads)
	var out []iface.IPFSLogEntry
	for _, e := range es {
		if hs.Has(e.GetHash().String()) {
			out = append(out, e)
		}
	}
	return out
}

// appendProbe reports what an append on a twin of l would produce (next and time), without touching l.
func appendProbe(tb ev.TB, w *sim.World, l *ipfslog.IPFSLog, pol *policy) string {
	twin, err := world.NewLog(w.Store.API(), 0, sim.LogID, w.Order, w.IO, &ipfslog.LogOptions{
		Entries: l.GetEntries(), Heads: l.Heads().Slice(),
		Clock: entry.NewLamportClock(l.Clock.GetID(), l.Clock.GetTime()),
	})
	if err != nil {
		tb.Fatalf("harness: %v", err)
	}
	e, err := twin.Append(context.Background(), []byte("probe"), nil)
	if err != nil {
		tb.Fatalf("harness: probe append: %v", err)
	}
	return fmt.Sprintf("next=%v time=%d", world.Shorts(world.SortedCopy(world.CidHashes(e.GetNext()))), e.GetClock().GetTime())
}

type snap struct {
	Entries, Heads, Values, JSON []string
	Len, ClockT                  int
	ClockID                      string
}

func takeSnap(l *ipfslog.IPFSLog) snap {
	return snap{
		Entries: world.SortedCopy(world.Hashes(l.GetEntries())),
		Heads:   world.SortedCopy(world.Hashes(l.Heads())),
		Values:  world.Hashes(l.Values()),
		JSON:    world.CidHashes(l.ToJSONLog().Heads),
		Len:     l.Len(), ClockT: l.Clock.GetTime(), ClockID: string(l.Clock.GetID()),
	}
}

func (a snap) diff(b snap) string {
	switch {
	case !world.EqualStrings(a.Entries, b.Entries):
		return fmt.Sprintf("entries %v -> %v", world.Shorts(a.Entries), world.Shorts(b.Entries))
	case !world.EqualStrings(a.Heads, b.Heads):
		return fmt.Sprintf("heads %v -> %v", world.Shorts(a.Heads), world.Shorts(b.Heads))
	case !world.EqualStrings(a.Values, b.Values):
		return "values changed"
	case !world.EqualStrings(a.JSON, b.JSON):
		return "published heads changed"
	case a.Len != b.Len:
		return "len changed"
	case a.ClockT != b.ClockT || a.ClockID != b.ClockID:
		return fmt.Sprintf("clock (%d) -> (%d)", a.ClockT, b.ClockT)
	}
	return ""
}

func TestC06(t *testing.T) {
	c := ev.Get("C06")
	c.Rule = "a generated multi-replica program (1-4 writers, default/link-key/legacy codec) builds valid logs; every appended entry must verify and the source must merge into a fresh permissive replica. Then a corruption plan (0..all positions; kinds: signature removed/from another entry/bit-flipped, key removed/foreign/garbage/truncated, payload/next/time changed after signing, foreign log id) is applied to copies placed in a source log built with NewLog(Entries, Heads), the destination holds another replica's entries - all of them or, in three cases of eight, only a window of the newest ones (what a bounded merge or limited load leaves) - and a generated pure access policy (deny by writer / payload prefix / hash set, or one that inspects the log through the context the library hands over and permits an entry only while that log is exactly what the destination held before the merge). The harness computes the candidate set itself; if any candidate is invalid or denied the merge must fail and leave the full snapshot (entries, heads, values, published heads, clock, result of a following append) unchanged, otherwise it must succeed with destination ∪ candidates. In half of the programs the valid source is first offered to a replica of another codec configuration (another link key, a link key where the writers have none, none where they have one): whatever it answers, every entry must still verify and merge under its own configuration. After every merge, whatever the log hands out as entries, heads or values under an identifier it held before (or accepted) must have that entry's content - the source may carry tampered objects under identifiers the destination already holds. Also: denied Append returns an error and changes neither entries nor heads. Non-trivial = an invalid candidate that is not a head of the source, with >= 2 candidates; distinct = distinct program. After a rejected merge the destination goes on (a merge of a peer holding what it held, a merge of the honest source, an append, the merge again) next to a twin log that never saw the rejected merge: outcomes and snapshots must agree step by step."
	c.Assumptions = []string{"the access controller is a pure function safe for concurrent calls", "an entry with a foreign log id is skipped silently (together with what is only reachable through it), as the statement's first clause says, and is not one of the error-raising kinds"}
	ev.Check(t, "C06", genC06, runC06)
}
