package auth

import "os"

func knownWitness() string { return os.Getenv("VERIF_KNOWN_WITNESS") }
