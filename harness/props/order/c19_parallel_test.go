package order

import (
	"fmt"
	"sync"
	"testing"

	"pgregory.net/rapid"

	"berty.tech/go-ipfs-log/entry/sorting"
	"berty.tech/go-ipfs-log/iface"

	"verifharness/ev"
)

// The laws of C19 are laws of functions: what a comparison or a sort returns depends on its arguments only - not on
// what the rest of the process compares or sorts at the same moment (logs on different goroutines linearise their
// values concurrently as a matter of course). Here several goroutines compare and sort generated pools at the same
// time; every result must be the one the same call gave when nothing else was running.

type c19ParProg struct {
	Pools   []c19Prog `json:"pools"`   // 2-3 pools; worker i works on pool i mod len
	Workers int       `json:"workers"` // 2-6 goroutines
	Rounds  int       `json:"rounds"`
}

func genC19Par(t *rapid.T) c19ParProg {
	p := c19ParProg{Workers: rapid.IntRange(2, 6).Draw(t, "workers"), Rounds: rapid.SampledFrom([]int{5, 20, 60}).Draw(t, "rounds")}
	n := rapid.IntRange(2, 3).Draw(t, "pools")
	for i := 0; i < n; i++ {
		p.Pools = append(p.Pools, genC19(t))
	}
	return p
}

type parRef struct {
	es     []iface.IPFSLogEntry
	matrix map[string][]int    // comparator -> results over all ordered pairs
	sorted map[string][]string // sorter -> hashes of the sorted shuffle
	shuf   []iface.IPFSLogEntry
}

var parCmps = []struct {
	name string
	fn   cmpFn
}{
	{"SortByEntryHash", sorting.SortByEntryHash},
	{"LastWriteWins", sorting.LastWriteWins},
	{"FirstWriteWins", sorting.FirstWriteWins},
	{"Compare", sorting.Compare},
}

func parCompute(r *parRef) (map[string][]int, map[string][]string, string) {
	m := map[string][]int{}
	s := map[string][]string{}
	for _, c := range parCmps {
		var row []int
		for _, a := range r.es {
			for _, b := range r.es {
				v, err := c.fn(a, b)
				if err != nil {
					return nil, nil, fmt.Sprintf("%s returned error %v", c.name, err)
				}
				row = append(row, sign(v))
			}
		}
		m[c.name] = row
		if c.name == "SortByEntryHash" || c.name == "Compare" {
			l := append([]iface.IPFSLogEntry(nil), r.shuf...)
			sorting.Sort(c.fn, l, false)
			s[c.name] = hashesOf(l)
		}
	}
	return m, s, ""
}

func runC19Par(tb ev.TB, p c19ParProg) ev.Result {
	refs := make([]*parRef, len(p.Pools))
	for i, pool := range p.Pools {
		r := &parRef{}
		for _, s := range pool.Pool {
			r.es = append(r.es, mk(s))
		}
		r.shuf = shuffled(r.es, pool.Perm)
		m, s, msg := parCompute(r)
		if msg != "" {
			tb.Fatalf("%s", msg)
		}
		r.matrix, r.sorted = m, s
		refs[i] = r
	}
	var wg sync.WaitGroup
	var mu sync.Mutex
	var failures []string
	start := make(chan struct{})
	for w := 0; w < p.Workers; w++ {
		r := refs[w%len(refs)]
		wg.Add(1)
		go func(w int) {
			defer wg.Done()
			<-start
			for round := 0; round < p.Rounds; round++ {
				m, s, msg := parCompute(r)
				if msg == "" {
					for name, row := range r.matrix {
						for k := range row {
							if m[name][k] != row[k] {
								n := len(r.es)
								msg = fmt.Sprintf("%s(entry %d, entry %d) of pool %d gave %d while other goroutines were comparing, and %d when nothing else ran", name, k/n, k%n, w%len(refs), m[name][k], row[k])
							}
						}
					}
					for name, want := range r.sorted {
						if !equalStrs(s[name], want) {
							msg = fmt.Sprintf("sorting pool %d with %s while other goroutines were sorting gave another order than the same sort alone", w%len(refs), name)
						}
					}
				}
				if msg != "" {
					mu.Lock()
					failures = append(failures, msg)
					mu.Unlock()
					return
				}
			}
		}(w)
	}
	close(start)
	wg.Wait()
	if len(failures) > 0 {
		tb.Fatalf("%s", failures[0])
	}
	return ev.Result{NonTrivial: true, Classes: []string{fmt.Sprintf("workers-%d", p.Workers), "parallel"}}
}

func TestC19Parallel(t *testing.T) {
	ev.Get("C19")
	ev.Check(t, "C19", genC19Par, runC19Par)
}
