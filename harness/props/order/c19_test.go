package order

import (
	"bytes"
	"fmt"
	"testing"

	"github.com/ipfs/go-cid"
	mh "github.com/multiformats/go-multihash"
	"pgregory.net/rapid"

	"berty.tech/go-ipfs-log/entry"
	"berty.tech/go-ipfs-log/entry/sorting"
	"berty.tech/go-ipfs-log/iface"

	"verifharness/ev"
)

func TestMain(m *testing.M) { ev.Main(m) }

// ---- program

type synthEntry struct {
	Time int    `json:"time"`
	ID   string `json:"id"` // clock id bytes as string (may be empty)
	Hash int    `json:"hash"`
	Made int    `json:"made,omitempty"` // how the object came to its present state: 0 struct literal; 1 setters; 2 setters, after other values were set first; 3 other hash set first, final values written to the exported fields; 4 value copy of another entry, fields overwritten; 5 / 6 the clock object was compared at an earlier time and then ticked / merged in place
}

type c19Prog struct {
	Pool []synthEntry `json:"pool"` // distinct Hash values
	Perm []int        `json:"perm"` // shuffle choices for the sort check
	Dups []int        `json:"dups"` // indices duplicated in the list that is sorted
	// Long > 0: additionally a list of that many entries with distinct clock times is sorted from nearly ordered
	// arrangements (the ordered list with the exchanges Swaps[i] <-> Swaps[i]+1 applied, or rotated by Swaps[0])
	Long  int   `json:"long,omitempty"`
	Swaps []int `json:"swaps,omitempty"`
	Rot   bool  `json:"rot,omitempty"`
}

var hashPool = func() []cid.Cid {
	out := make([]cid.Cid, 64)
	for i := range out {
		c, err := cid.V1Builder{Codec: cid.DagCBOR, MhType: mh.SHA2_256}.Sum([]byte(fmt.Sprintf("verif-hash-%d", i)))
		if err != nil {
			panic(err)
		}
		out[i] = c
	}
	// distinct identifiers over ONE digest: CIDv0, and CIDv1 with the dag-pb / dag-cbor / raw codecs (distinct
	// entries as far as the ordering is concerned: their hashes differ)
	for i := 0; i < 4; i++ {
		sum, err := mh.Sum([]byte(fmt.Sprintf("verif-shared-digest-%d", i)), mh.SHA2_256, -1)
		if err != nil {
			panic(err)
		}
		out = append(out, cid.NewCidV0(sum), cid.NewCidV1(cid.DagProtobuf, sum), cid.NewCidV1(cid.DagCBOR, sum), cid.NewCidV1(cid.Raw, sum))
	}
	return out
}()

var idPool = []string{"", "a", "ab", "b", "ba", "\x00", "\xff", "A", "B", "aB", "Ab", "0a", "0A", "0b", "0B",
	"\x04aaaaaaaaaaaaaaaaaaaaaaaaaaaaaaaaaaaaaaaaaaaaaaaaaaaaaaaaaaaaaaaaaaaaaaaaaaaaaaaaaaaaaaaaaaaaaaaaaaaaaaaaaaaaaaaa",
	"\x04aaaaaaaaaaaaaaaaaaaaaaaaaaaaaaaaaaaaaaaaaaaaaaaaaaaaaaaaaaaaaaaaaaaaaaaaaaaaaaaaaaaaaaaaaaaaaaaaaaaaaaaaaaaaaaab",
	"\x02bbbbbbbbbbbbbbbbbbbbbbbbbbbbbbbb"}

func genC19(t *rapid.T) c19Prog {
	n := rapid.IntRange(2, 9).Draw(t, "n")
	timeGen := rapid.OneOf(
		rapid.SampledFrom([]int{0, 1, 2, 3, 1 << 31, 1<<31 + 1, 1 << 62, 1<<62 - 1}),
		rapid.IntRange(0, 5),
		rapid.IntRange(0, 1<<62),
	)
	hashes := rapid.Permutation(seq(64)).Draw(t, "hashes")[:n] // the plain identifiers; the shared-digest ones are placed below
	p := c19Prog{}
	for i := 0; i < n; i++ {
		p.Pool = append(p.Pool, synthEntry{
			Time: timeGen.Draw(t, "time"),
			ID:   rapid.SampledFrom(idPool).Draw(t, "id"),
			Hash: hashes[i],
		})
	}
	// sometimes the first entries are the distinct identifiers of one shared digest, often with equal clocks so
	// that the hash decides
	if rapid.IntRange(0, 3).Draw(t, "sharedDigest") == 0 {
		g := rapid.IntRange(0, 3).Draw(t, "group")
		for i := 0; i < n && i < 4; i++ {
			p.Pool[i].Hash = 64 + 4*g + i
			if i > 0 && rapid.Bool().Draw(t, "sameClock") {
				p.Pool[i].Time, p.Pool[i].ID = p.Pool[0].Time, p.Pool[0].ID
			}
		}
	}
	// sometimes several objects carry ONE identifier (a tampered copy next to the original, say) or none yet
	// (entries that were not hashed so far): the clocks still decide, and only equal hash AND equal clock is "equal"
	if rapid.IntRange(0, 4).Draw(t, "sharedHash") == 0 {
		h := p.Pool[0].Hash
		if rapid.IntRange(0, 2).Draw(t, "undefined") == 0 {
			h = undefHash
			p.Pool[0].Hash = h
		}
		k := rapid.IntRange(1, n-1).Draw(t, "sharedHashN")
		for i := 1; i <= k; i++ {
			p.Pool[i].Hash = h
		}
	}
	if rapid.IntRange(0, 2).Draw(t, "made") == 0 {
		for i := range p.Pool {
			p.Pool[i].Made = rapid.IntRange(0, 6).Draw(t, "madeHow")
		}
	}
	p.Perm = rapid.SliceOfN(rapid.IntRange(0, 1<<20), n+3, n+3).Draw(t, "perm")
	p.Dups = rapid.SliceOfN(rapid.IntRange(0, n-1), 0, 3).Draw(t, "dups")
	if rapid.IntRange(0, 3).Draw(t, "long") == 0 {
		p.Long = rapid.IntRange(10, 70).Draw(t, "longN")
		p.Swaps = rapid.SliceOfN(rapid.OneOf(rapid.IntRange(0, 2), rapid.IntRange(0, p.Long-2), rapid.IntRange(p.Long-4, p.Long-2)), 1, 3).Draw(t, "swaps")
		p.Rot = rapid.IntRange(0, 4).Draw(t, "rot") == 0
	}
	return p
}

func seq(n int) []int {
	o := make([]int, n)
	for i := range o {
		o[i] = i
	}
	return o
}

// undefHash is the Hash value of an entry that has not been given an identifier yet (cid.Undef).
const undefHash = 1 << 20

func hashOf(i int) cid.Cid {
	if i == undefHash {
		return cid.Undef
	}
	return hashPool[i%len(hashPool)]
}

// keyOf tells list elements apart where the hash alone does not (objects under one identifier with different clocks).
func keyOf(e iface.IPFSLogEntry) string {
	return fmt.Sprintf("%s/%d/%x", e.GetHash().String(), e.GetClock().GetTime(), e.GetClock().GetID())
}

// mk builds the entry object. The comparators are functions of the entry's current clock and hash; how the object got
// them (literal, setters, an earlier value overwritten through a setter or through the exported field, a value copy) is
// generated and must not matter.
func mk(s synthEntry) iface.IPFSLogEntry {
	other := hashOf((s.Hash + 17) % 64)
	otherClock := entry.NewLamportClock([]byte("zz"), s.Time/2+7)
	switch s.Made % 7 {
	case 1, 2:
		e := &entry.Entry{LogID: "L", Payload: []byte("p"), V: 2}
		if s.Made%7 == 2 {
			e.SetHash(other)
			e.SetClock(otherClock)
		}
		e.SetHash(hashOf(s.Hash))
		e.SetClock(entry.NewLamportClock([]byte(s.ID), s.Time))
		return e
	case 3:
		e := &entry.Entry{LogID: "L", Payload: []byte("p"), V: 2}
		e.SetHash(other)
		e.SetClock(otherClock)
		e.Hash = hashOf(s.Hash)
		e.Clock = entry.NewLamportClock([]byte(s.ID), s.Time)
		return e
	case 5, 6:
		// the clock object was already looked at by a comparison when it stood at an earlier time, and was then
		// advanced in place: ticked (5) or merged with a later clock (6)
		if s.Time <= 0 {
			break
		}
		// (Merge computes through float64: it is only used where that is exact; larger times are ticked)
		merge := s.Made%7 == 6 && s.Time < 1<<53
		clk := entry.NewLamportClock([]byte(s.ID), s.Time-1)
		if merge {
			clk = entry.NewLamportClock([]byte(s.ID), 0)
		}
		e := &entry.Entry{LogID: "L", Payload: []byte("p"), V: 2, Hash: hashOf(s.Hash), Clock: clk}
		probe := &entry.Entry{LogID: "L", Payload: []byte("p"), V: 2, Hash: other, Clock: otherClock}
		_, _ = sorting.SortByEntryHash(e, probe)
		_, _ = sorting.LastWriteWins(probe, e)
		_ = clk.Compare(otherClock)
		if merge {
			clk.Merge(entry.NewLamportClock([]byte("zz"), s.Time))
		} else {
			clk.Tick()
		}
		return e
	case 4:
		src := &entry.Entry{LogID: "L", Payload: []byte("p"), V: 2}
		src.SetHash(other)
		src.SetClock(otherClock)
		c := *src
		c.Hash = hashOf(s.Hash)
		c.Clock = entry.NewLamportClock([]byte(s.ID), s.Time)
		return &c
	}
	return &entry.Entry{
		LogID:   "L",
		Payload: []byte("p"),
		Hash:    hashOf(s.Hash),
		Clock:   entry.NewLamportClock([]byte(s.ID), s.Time),
		V:       2,
	}
}

func sign(x int) int {
	switch {
	case x < 0:
		return -1
	case x > 0:
		return 1
	}
	return 0
}

type cmpFn func(a, b iface.IPFSLogEntry) (int, error)

func must(tb ev.TB, name string, f cmpFn, a, b iface.IPFSLogEntry) int {
	r, err := f(a, b)
	if err != nil {
		tb.Fatalf("%s returned error %v", name, err)
	}
	return r
}

func shuffled(xs []iface.IPFSLogEntry, choices []int) []iface.IPFSLogEntry {
	out := append([]iface.IPFSLogEntry(nil), xs...)
	for i := len(out) - 1; i > 0; i-- {
		j := choices[i%len(choices)] % (i + 1)
		out[i], out[j] = out[j], out[i]
	}
	return out
}

func keysOf(xs []iface.IPFSLogEntry) []string {
	o := make([]string, len(xs))
	for i, e := range xs {
		o[i] = keyOf(e)
	}
	return o
}

func hashesOf(xs []iface.IPFSLogEntry) []string {
	o := make([]string, len(xs))
	for i, e := range xs {
		o[i] = e.GetHash().String()
	}
	return o
}

func runC19(tb ev.TB, p c19Prog) ev.Result {
	es := make([]iface.IPFSLogEntry, len(p.Pool))
	for i, s := range p.Pool {
		es[i] = mk(s)
	}
	n := len(es)
	eqTime, eqID, lwwTie := false, false, false
	equalPair, sharedHash := false, false
	hashDir := 0
	clockCmp := func(a, b iface.IPFSLogEntry) (int, error) { return a.GetClock().Compare(b.GetClock()), nil }

	for i := 0; i < n; i++ {
		a := es[i]
		// irreflexive
		if r := must(tb, "SortByEntryHash", sorting.SortByEntryHash, a, a); r != 0 {
			tb.Fatalf("SortByEntryHash(a,a) = %d, want 0 (irreflexive) for %+v", r, p.Pool[i])
		}
		if r, _ := clockCmp(a, a); r != 0 {
			tb.Fatalf("clock.Compare(a,a) = %d", r)
		}
		for j := 0; j < n; j++ {
			if i == j {
				continue
			}
			b := es[j]
			sa, sb := p.Pool[i], p.Pool[j]
			if sa.Time == sb.Time {
				eqTime = true
			}
			if sa.ID == sb.ID {
				eqID = true
			}
			h1 := must(tb, "SortByEntryHash", sorting.SortByEntryHash, a, b)
			h2 := must(tb, "SortByEntryHash", sorting.SortByEntryHash, b, a)
			sameEntry := hashOf(sa.Hash).Equals(hashOf(sb.Hash)) && sa.Time == sb.Time && sa.ID == sb.ID
			if sameEntry {
				equalPair = true
				if h1 != 0 {
					tb.Fatalf("SortByEntryHash(%+v, %+v) = %d for entries equal in hash and clock", sa, sb, h1)
				}
			} else if h1 == 0 {
				tb.Fatalf("SortByEntryHash not total: distinct entries %+v %+v compare 0", sa, sb)
			}
			if hashOf(sa.Hash).Equals(hashOf(sb.Hash)) && !sameEntry {
				sharedHash = true
			}
			if sign(h1) != -sign(h2) {
				tb.Fatalf("SortByEntryHash not antisymmetric on %+v %+v: %d vs %d", sa, sb, h1, h2)
			}
			l1 := must(tb, "LastWriteWins", sorting.LastWriteWins, a, b)
			f1 := must(tb, "FirstWriteWins", sorting.FirstWriteWins, a, b)
			if f1 != -l1 {
				tb.Fatalf("FirstWriteWins(%+v,%+v)=%d is not the exact reverse of LastWriteWins=%d", sa, sb, f1, l1)
			}
			c1, _ := clockCmp(a, b)
			c2, _ := clockCmp(b, a)
			if sign(c1) != -sign(c2) {
				tb.Fatalf("clock.Compare not antisymmetric on %+v %+v: %d vs %d", sa, sb, c1, c2)
			}
			g1 := must(tb, "sorting.Compare", sorting.Compare, a, b)
			if sign(g1) != sign(c1) {
				tb.Fatalf("sorting.Compare disagrees with clock.Compare on %+v %+v", sa, sb)
			}
			distinctPair := sa.Time != sb.Time || sa.ID != sb.ID
			if distinctPair {
				if sign(l1) != sign(h1) {
					tb.Fatalf("LastWriteWins (%d) disagrees with hash ordering (%d) on distinct (id,time) %+v %+v", l1, h1, sa, sb)
				}
				if c1 == 0 {
					tb.Fatalf("clock.Compare is 0 for distinct (id,time) %+v %+v", sa, sb)
				}
				if sign(c1) != sign(h1) {
					tb.Fatalf("clock.Compare (%d) disagrees with hash ordering (%d) on %+v %+v", c1, h1, sa, sb)
				}
			} else {
				lwwTie = true
				if c1 != 0 {
					tb.Fatalf("clock.Compare nonzero for equal clocks")
				}
			}
			if sa.Time < sb.Time {
				if h1 >= 0 || l1 >= 0 || c1 >= 0 || g1 >= 0 {
					tb.Fatalf("smaller clock time not ordered first: %+v vs %+v: hash=%d lww=%d clock=%d compare=%d", sa, sb, h1, l1, c1, g1)
				}
				if f1 <= 0 {
					tb.Fatalf("FirstWriteWins must order smaller time last: %+v vs %+v: %d", sa, sb, f1)
				}
			}
			if bytes.Equal([]byte(sa.ID), []byte(sb.ID)) && sa.Time == sb.Time {
				// the hash decides, in one direction for all pairs (which direction is not part of the property)
				if cs := sign(compareStr(a.GetHash().String(), b.GetHash().String())); cs != 0 {
					d := sign(h1) * cs
					if hashDir == 0 {
						hashDir = d
					}
					if d == 0 || d != hashDir {
						tb.Fatalf("hash tiebreak inconsistent on %+v %+v", sa, sb)
					}
				}
			}
			// transitivity
			for k := 0; k < n; k++ {
				if k == i || k == j {
					continue
				}
				c := es[k]
				hbc := must(tb, "SortByEntryHash", sorting.SortByEntryHash, b, c)
				hac := must(tb, "SortByEntryHash", sorting.SortByEntryHash, a, c)
				if h1 < 0 && hbc < 0 && !(hac < 0) {
					tb.Fatalf("SortByEntryHash not transitive: %+v < %+v < %+v but a?c = %d", sa, sb, p.Pool[k], hac)
				}
				cbc, _ := clockCmp(b, c)
				cac, _ := clockCmp(a, c)
				if c1 < 0 && cbc < 0 && !(cac < 0) {
					tb.Fatalf("clock.Compare not transitive: %+v %+v %+v", sa, sb, p.Pool[k])
				}
				if c1 <= 0 && cbc <= 0 && !(cac <= 0) {
					tb.Fatalf("clock.Compare (<=) not transitive: %+v %+v %+v", sa, sb, p.Pool[k])
				}
			}
		}
	}

	// ---- sorting: deterministic, permutation, ordered
	list := append([]iface.IPFSLogEntry(nil), es...)
	for _, d := range p.Dups {
		list = append(list, mk(p.Pool[d%n])) // equal copy of an existing entry
	}
	type sorter struct {
		name   string
		fn     cmpFn
		strict bool // strict total on the list -> unique result
	}
	sorters := []sorter{{"SortByEntryHash", sorting.SortByEntryHash, true}}
	if !lwwTie && (len(p.Dups) == 0 && !equalPair) { // a duplicate is an equal-(id,time) pair: outside LWW's strict domain
		sorters = append(sorters, sorter{"LastWriteWins", sorting.LastWriteWins, true},
			sorter{"FirstWriteWins", sorting.FirstWriteWins, true},
			sorter{"NoZeroes(LastWriteWins)", sorting.NoZeroes(sorting.LastWriteWins), true})
	}
	if len(p.Dups) == 0 && !equalPair {
		sorters = append(sorters, sorter{"NoZeroes(SortByEntryHash)", sorting.NoZeroes(sorting.SortByEntryHash), true})
	}
	sorters = append(sorters, sorter{"Compare", sorting.Compare, false})
	for _, s := range sorters {
		for _, rev := range []bool{false, true} {
			a := shuffled(list, p.Perm)
			b := shuffled(list, p.Perm[1:])
			inA := keysOf(a)
			sorting.Sort(s.fn, a, rev)
			sorting.Sort(s.fn, b, rev)
			ha, hb := keysOf(a), keysOf(b)
			if !sameMultiset(inA, ha) {
				tb.Fatalf("Sort(%s, rev=%v) is not a permutation of its input: in=%v out=%v", s.name, rev, inA, ha)
			}
			for x := 0; x+1 < len(a); x++ {
				r, err := s.fn(a[x], a[x+1])
				if err != nil {
					continue // NoZeroes never errs on distinct entries; Compare never errs
				}
				if (!rev && r > 0) || (rev && r < 0) {
					tb.Fatalf("Sort(%s, rev=%v) output not ordered at %d: %v", s.name, rev, x, ha)
				}
			}
			if s.strict && !equalStrs(ha, hb) {
				tb.Fatalf("Sort(%s, rev=%v) depends on input order: %v vs %v", s.name, rev, ha, hb)
			}
		}
	}
	// ascending and descending are mirror images for strict orders
	{
		a := shuffled(list, p.Perm)
		b := shuffled(list, p.Perm[2:])
		sorting.Sort(sorting.SortByEntryHash, a, false)
		sorting.Sort(sorting.SortByEntryHash, b, true)
		sorting.Reverse(b)
		if (len(p.Dups) == 0 && !equalPair) && !equalStrs(keysOf(a), keysOf(b)) {
			tb.Fatalf("ascending sort is not the reverse of descending sort")
		}
	}
	// ---- long lists, nearly ordered on input (sort implementations treat short and long, ordered and unordered
	// input differently)
	if p.Long > 0 {
		base := make([]iface.IPFSLogEntry, p.Long)
		for i := range base {
			base[i] = mk(synthEntry{Time: 1 + 2*i, ID: idPool[(i*7)%len(idPool)], Hash: (i * 13) % 64})
		}
		arrange := func(asc bool) []iface.IPFSLogEntry {
			l := append([]iface.IPFSLogEntry(nil), base...)
			if !asc {
				for i, j := 0, len(l)-1; i < j; i, j = i+1, j-1 {
					l[i], l[j] = l[j], l[i]
				}
			}
			if p.Rot {
				k := p.Swaps[0] % len(l)
				l = append(append([]iface.IPFSLogEntry(nil), l[k:]...), l[:k]...)
			} else {
				for _, sw := range p.Swaps {
					if sw < 0 {
						sw = 0
					}
					sw %= len(l) - 1
					l[sw], l[sw+1] = l[sw+1], l[sw]
				}
			}
			return l
		}
		for _, s := range []sorter{{"SortByEntryHash", sorting.SortByEntryHash, true}, {"LastWriteWins", sorting.LastWriteWins, true}, {"FirstWriteWins", sorting.FirstWriteWins, true}, {"NoZeroes(LastWriteWins)", sorting.NoZeroes(sorting.LastWriteWins), true}} {
			for _, rev := range []bool{false, true} {
				for _, asc := range []bool{true, false} {
					l := arrange(asc)
					in := hashesOf(l)
					sorting.Sort(s.fn, l, rev)
					out := hashesOf(l)
					if !sameMultiset(in, out) {
						tb.Fatalf("Sort(%s, rev=%v) of %d nearly ordered entries is not a permutation of its input", s.name, rev, p.Long)
					}
					for x := 0; x+1 < len(l); x++ {
						r, err := s.fn(l[x], l[x+1])
						if err != nil {
							continue
						}
						if (!rev && r > 0) || (rev && r < 0) {
							tb.Fatalf("Sort(%s, rev=%v) of %d nearly ordered entries (exchanges %v, rotated %v, from the %s side): output not ordered at %d", s.name, rev, p.Long, p.Swaps, p.Rot, map[bool]string{true: "ascending", false: "descending"}[asc], x)
						}
					}
				}
			}
		}
	}
	cl := []string{}
	if p.Long > 20 {
		cl = append(cl, "long-nearly-ordered-list")
	}
	if eqTime {
		cl = append(cl, "eq-time-pair")
	}
	if eqID {
		cl = append(cl, "eq-id-pair")
	}
	if lwwTie {
		cl = append(cl, "equal-(id,time)-pair")
	}
	if len(p.Dups) > 0 {
		cl = append(cl, "list-with-duplicates")
	}
	if sharedHash {
		cl = append(cl, "objects-with-one-identifier-and-different-clocks")
	}
	return ev.Result{NonTrivial: eqTime && eqID, Classes: cl}
}

func compareStr(a, b string) int {
	if a < b {
		return -1
	}
	if a > b {
		return 1
	}
	return 0
}

func sameMultiset(a, b []string) bool {
	if len(a) != len(b) {
		return false
	}
	m := map[string]int{}
	for _, x := range a {
		m[x]++
	}
	for _, x := range b {
		m[x]--
	}
	for _, v := range m {
		if v != 0 {
			return false
		}
	}
	return true
}

func equalStrs(a, b []string) bool {
	if len(a) != len(b) {
		return false
	}
	for i := range a {
		if a[i] != b[i] {
			return false
		}
	}
	return true
}

func TestC19(t *testing.T) {
	c := ev.Get("C19")
	c.Rule = "rapid-generated pools of 2-9 synthetic entries (distinct hashes - in a fifth of the pools several objects share one identifier or have none yet (cid.Undef), with whatever clocks: only equal hash AND equal clock is the same entry; times from {0,1,2,3,2^31,2^62,random>=0}; clock ids from a pool with prefix relations and ids that differ in letter case only); every ordered pair and triple of the pool is checked against the order laws, and every sorter is run on two different shuffles (+ duplicates) of the pool. Non-trivial = the pool has at least one equal-time pair and at least one equal-clock-id pair; distinct = distinct generated program (sha256 of its JSON). In a third of the pools the entry objects have a generated construction history (struct literal, setters, earlier hash / clock overwritten through setters or through the exported fields, value copy): the laws are about the current clock and hash only. Construction histories include a clock object that was compared at an earlier time and then ticked / merged in place."
	c.Assumptions = []string{"clock times are non-negative Lamport times <= 2^62 (Compare subtracts, so mixed-sign extremes would overflow; outside the documented domain)", "two objects are the same entry only if hash AND clock are equal (objects under one identifier with different clocks are distinct)"}
	ev.Check(t, "C19", genC19, runC19)
}
