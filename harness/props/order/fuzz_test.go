package order

import (
	"testing"

	"pgregory.net/rapid"

	"verifharness/ev"
)

// FuzzC19: generator and oracle of TestC19 under Go's coverage-guided fuzzer.
func FuzzC19(f *testing.F) {
	coll := ev.Get("C19")
	f.Fuzz(rapid.MakeFuzz(func(t *rapid.T) {
		p := genC19(t)
		coll.Record(p, runC19(t, p))
	}))
}
