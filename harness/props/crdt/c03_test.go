package crdt

import (
	"testing"

	"pgregory.net/rapid"

	"verifharness/ev"
	"verifharness/sim"
	"verifharness/world"
)

// checkLinearisation asserts the C03 clauses for one sequence of hashes claimed
// to be the linearised view of the model set.
func checkLinearisation(tb ev.TB, w *sim.World, where string, seq []string, model world.Set) {
	pos := map[string]int{}
	for i, h := range seq {
		if _, dup := pos[h]; dup {
			tb.Fatalf("%s: entry %s appears twice in the linearised view", where, world.Short(h))
		}
		pos[h] = i
	}
	if !world.SetOf(seq).Equal(model) {
		tb.Fatalf("%s: linearised view holds %d entries %v, log holds %d %v", where, len(seq), world.Shorts(world.SortedCopy(seq)), len(model), world.Shorts(model.Sorted()))
	}
	for _, h := range seq {
		for _, n := range w.Reg.Get(h).Next {
			if pn, ok := pos[n]; ok && pn > pos[h] {
				tb.Fatalf("%s: entry %s is placed before its predecessor %s", where, world.Short(h), world.Short(n))
			}
		}
	}
	if w.Reg.StrictTotalOn(w.Order, model) {
		want := w.Reg.RefSort(w.Order, model)
		if !world.EqualStrings(seq, want) {
			tb.Fatalf("%s: linearised view is not sorted by the configured ordering (%s):\n got  %v\n want %v", where, w.Order, world.Shorts(seq), world.Shorts(want))
		}
	} else {
		// sorted up to ties: adjacent elements never strictly out of order
		for i := 0; i+1 < len(seq); i++ {
			if world.RefCompare(w.Order, w.Reg.Get(seq[i]), w.Reg.Get(seq[i+1])) > 0 {
				tb.Fatalf("%s: linearised view strictly out of order at %d", where, i)
			}
		}
	}
}

func runC03(tb ev.TB, p sim.Prog) ev.Result {
	nt := false
	obs := func(tb ev.TB, w *sim.World, info *sim.OpInfo) {
		switch info.Op.Kind {
		case "append", "join", "rebuild", "loadtail":
			sim.MustOK(tb, info)
		}
		r := w.Reps[info.Dst]
		vals := world.Hashes(r.Log.Values())
		checkLinearisation(tb, w, "Values()", vals, r.Model)
		if len(vals) != r.Log.Len() {
			tb.Fatalf("len(Values()) = %d but Len() = %d", len(vals), r.Log.Len())
		}
		sv := world.SliceHashes(r.Log.ToSnapshot().Values)
		if !world.EqualStrings(world.SortedCopy(sv), world.SortedCopy(vals)) {
			tb.Fatalf("ToSnapshot().Values holds other entries than Values()")
		}
		// calling Values twice gives the same answer (it depends only on the set)
		if again := world.Hashes(r.Log.Values()); !world.EqualStrings(again, vals) {
			tb.Fatalf("Values() not stable across calls")
		}
		if w.Reg.HasDiamond(r.Model) || len(w.Reg.ModelHeads(r.Model)) >= 3 {
			nt = true
		}
	}
	w := sim.Run(tb, &p, obs)
	return ev.Result{NonTrivial: nt, Classes: worldClasses(w)}
}

func TestC03(t *testing.T) {
	c := ev.Get("C03")
	c.Rule = "same multi-replica program generator as C01. After every operation Values() of the affected replica is compared with the reference sort of the model set using the harness's own comparator (time, clock-id bytes, then hash string for the hash ordering); completeness, duplicate-freedom and causal placement are checked directly; when the ordering is not strict-total on the set only those order-free clauses plus 'never strictly out of order' are asserted. Non-trivial = the replica's set contains a diamond (entry with >= 2 predecessors) or >= 3 concurrent heads; distinct = distinct program."
	ev.Check(t, "C03", func(t *rapid.T) sim.Prog { return sim.Gen(t, genCfg(true)) }, runC03)
}
