package crdt

import (
	"math"
	"testing"

	"pgregory.net/rapid"

	ipfslog "berty.tech/go-ipfs-log"
	"berty.tech/go-ipfs-log/entry"

	"verifharness/ev"
	"verifharness/sim"
	"verifharness/world"
)

type c16Prog struct {
	World sim.Prog `json:"world"`
	A     int      `json:"a"`
	B     int      `json:"b"`
	N     int      `json:"n"` // bound = N mod (total+4)
	// second stage (when Second): the windowed log merges again, with another bound, from replica C
	Second bool `json:"second,omitempty"`
	// third stage (when Third): replica C, holding its whole history, makes a bounded merge FROM the windowed log
	Third bool `json:"third,omitempty"`
	// Behind > 0: in the third stage the receiving replica is one that stopped earlier - it holds the oldest
	// 1 + (Behind-1) mod (total-1) entries of the merged history - instead of replica C
	Behind int `json:"behind,omitempty"`
	C      int `json:"c,omitempty"`
	N2     int `json:"n2,omitempty"`
}

func genC16(t *rapid.T) c16Prog {
	cfg := genCfg(false)
	cfg.MaxOps = ev.Scale(24, 60)
	cfg.Orders = []int{0, 0, 1, 1, 2} // also FirstWriteWins: "the linearisation the unbounded merge would have produced" is then taken from the twin
	w := sim.Gen(t, cfg)
	a := rapid.IntRange(0, w.Replicas-1).Draw(t, "dst")
	// the other replicas may be configured with another SortFn than the destination (it shows in the order in
	// which their merge entries list their predecessors); the destination's ordering is the world's
	if rapid.IntRange(0, 2).Draw(t, "mixedOrders") == 0 {
		for i := 0; i < w.Replicas; i++ {
			o := -1
			if i != a {
				o = rapid.IntRange(0, 2).Draw(t, "replicaOrder")
			}
			w.ReplicaOrders = append(w.ReplicaOrders, o)
		}
	}
	return c16Prog{
		World:  w,
		A:      a,
		B:      rapid.IntRange(0, w.Replicas-1).Draw(t, "src"),
		N:      rapid.IntRange(0, 1<<16).Draw(t, "n"),
		Second: rapid.IntRange(0, 2).Draw(t, "second") == 0,
		Third:  rapid.IntRange(0, 2).Draw(t, "third") == 1,
		Behind: rapid.SampledFrom([]int{0, 1, 2, 3, 4, 6, 9, 14}).Draw(t, "behind"),
		C:      rapid.IntRange(0, w.Replicas-1).Draw(t, "src2"),
		N2:     rapid.IntRange(0, 1<<16).Draw(t, "n2"),
	}
}

// C16 — a size-bounded merge keeps exactly the newest entries of the full merge.
func runC16(tb ev.TB, p c16Prog) ev.Result {
	w := sim.Run(tb, &p.World, func(tb ev.TB, w *sim.World, info *sim.OpInfo) {
		switch info.Op.Kind {
		case "append", "join", "rebuild":
			sim.MustOK(tb, info)
		}
	})
	n := len(w.Reps)
	a, b := p.A%n, p.B%n
	if a == b {
		b = (a + 1) % n
	}
	dst, src := w.Reps[a], w.Reps[b]
	union := dst.Model.Clone()
	union.Union(src.Model)
	total := len(union)
	// bias the bound to the interesting values
	cands := []int{0, 1, total - 1, total, total + 1, total + 3, p.N % (total + 4), p.N % (total + 4), (p.N / 7) % (total + 4), p.N % (total + 4), (p.N / 7) % (total + 4),
		1000 * (total + 1), math.MaxInt, 1 << 62} // "no limit" sentinels callers pass
	bound := cands[p.N%len(cands)]
	if bound < 0 {
		bound = 0
	}
	strict := w.Reg.StrictTotalOn(w.Order, union)
	full := w.Reg.RefSort(w.Order, union)

	// twin that performs the unbounded merge (for bound >= total comparison)
	twin, err := world.NewLog(w.Store.API(), dst.Writer, sim.LogID, w.Order, w.IO, &ipfslog.LogOptions{Entries: dst.Log.GetEntries(), Heads: dst.Log.Heads().Slice(), Clock: entry.NewLamportClock(dst.Log.Clock.GetID(), dst.Log.Clock.GetTime())})
	if err != nil {
		tb.Fatalf("harness: twin: %v", err)
	}
	if _, err := twin.Join(src.Log, -1); err != nil {
		tb.Fatalf("unbounded merge failed: %v", err)
	}
	// a second twin goes through the same bounded merge and then does the unbounded form of the second one
	twin2, err := world.NewLog(w.Store.API(), dst.Writer, sim.LogID, w.Order, w.IO, &ipfslog.LogOptions{Entries: dst.Log.GetEntries(), Heads: dst.Log.Heads().Slice(), Clock: entry.NewLamportClock(dst.Log.Clock.GetID(), dst.Log.Clock.GetTime())})
	if err != nil {
		tb.Fatalf("harness: twin: %v", err)
	}

	if w.Order == world.OrderFWW {
		// not a causal ordering: the reference is the linearisation the unbounded merge (of the twin) produces
		full = world.Hashes(twin.Values())
	}
	ret, err := dst.Log.Join(src.Log, bound) // a panic here is a violation (rapid reports it)
	if err != nil {
		tb.Fatalf("bounded merge (n=%d, total=%d) returned error: %v", bound, total, err)
	}
	_ = ret
	want := bound
	if total < want {
		want = total
	}
	vals := world.Hashes(dst.Log.Values())
	ents := entriesOf(dst.Log)
	if len(vals) != want || len(ents) != want || dst.Log.Len() != want {
		tb.Fatalf("bounded merge n=%d of total %d: Values has %d, entries %d, Len %d; want %d", bound, total, len(vals), len(ents), dst.Log.Len(), want)
	}
	if !world.SetOf(vals).Equal(ents) {
		tb.Fatalf("Values() and GetEntries() disagree after bounded merge")
	}
	for h := range ents {
		if !union.Has(h) {
			tb.Fatalf("bounded merge produced foreign entry %s", world.Short(h))
		}
	}
	if strict {
		exp := full[len(full)-want:]
		if !world.EqualStrings(vals, exp) {
			tb.Fatalf("bounded merge n=%d of total %d: values are not the last %d of the full linearisation:\n got  %v\n want %v", bound, total, want, world.Shorts(vals), world.Shorts(exp))
		}
	} else if w.Order != world.OrderFWW {
		// up to ties: nothing excluded is strictly newer than something included
		for _, x := range full {
			if ents.Has(x) {
				continue
			}
			for h := range ents {
				if world.RefCompare(w.Order, w.Reg.Get(x), w.Reg.Get(h)) > 0 {
					tb.Fatalf("bounded merge n=%d: excluded entry %s is strictly newer than included %s", bound, world.Short(x), world.Short(h))
				}
			}
		}
	}
	// heads == unreferenced among the kept entries
	wantHeads := w.Reg.ModelHeads(ents)
	for name, hs := range map[string][]string{"Heads()": world.Hashes(dst.Log.Heads()), "ToSnapshot().Heads": world.CidHashes(dst.Log.ToSnapshot().Heads)} {
		if !world.SetOf(hs).Equal(wantHeads) || len(hs) != len(wantHeads) {
			tb.Fatalf("bounded merge n=%d of %d: %s = %v, unreferenced among kept entries = %v", bound, total, name, world.Shorts(hs), world.Shorts(wantHeads.Sorted()))
		}
	}
	if bound >= total {
		ts, ds := takeSnap(twin), takeSnap(dst.Log)
		if !strict {
			ts.Values, ds.Values = nil, nil
			ts.HeadsSeq, ds.HeadsSeq, ts.JSON, ds.JSON = nil, nil, nil, nil
		}
		if d := ts.diff(ds); d != "" {
			tb.Fatalf("bound %d >= merged size %d must behave like the unbounded merge: %s", bound, total, d)
		}
	}
	secondStage, thirdStage := false, false
	if p.Second && n >= 2 {
		c := p.C % n
		if c == a {
			c = (a + 1) % n
		}
		src2 := w.Reps[c]
		everything := union.Clone()
		everything.Union(src2.Model)
		if !w.Reg.StrictTotalOn(w.Order, everything) {
			// with ties two logs may legitimately keep different windows: the comparison with a twin needs a strict order
			goto classify
		}
		if _, err := twin2.Join(src.Log, bound); err != nil {
			tb.Fatalf("bounded merge on the twin failed: %v", err)
		}
		if d := takeSnap(twin2).diff(takeSnap(dst.Log)); d != "" {
			tb.Fatalf("two logs in the same state made the same bounded merge and differ: %s", d)
		}
		if _, err := twin2.Join(src2.Log, -1); err != nil {
			tb.Fatalf("unbounded merge into a windowed log failed: %v", err)
		}
		full2 := world.Hashes(twin2.Values())
		total2 := len(full2)
		cands2 := []int{0, 1, total2 - 1, total2, total2 + 1, total2 + 3, p.N2 % (total2 + 4), (p.N2 / 7) % (total2 + 4)}
		bound2 := cands2[p.N2%len(cands2)]
		if bound2 < 0 {
			bound2 = 0
		}
		if _, err := dst.Log.Join(src2.Log, bound2); err != nil {
			tb.Fatalf("second bounded merge (n=%d) returned error: %v", bound2, err)
		}
		want2 := bound2
		if total2 < want2 {
			want2 = total2
		}
		vals2 := world.Hashes(dst.Log.Values())
		ents2 := entriesOf(dst.Log)
		if len(vals2) != want2 || len(ents2) != want2 || dst.Log.Len() != want2 {
			tb.Fatalf("second bounded merge n=%d (the unbounded merge linearises %d entries): Values has %d, entries %d, Len %d; want %d", bound2, total2, len(vals2), len(ents2), dst.Log.Len(), want2)
		}
		if exp := full2[total2-want2:]; !world.EqualStrings(vals2, exp) {
			tb.Fatalf("second bounded merge n=%d: values are not the last %d of what the unbounded merge linearises:\n got  %v\n want %v", bound2, want2, world.Shorts(vals2), world.Shorts(exp))
		}
		wantHeads2 := w.Reg.ModelHeads(ents2)
		if hs := world.SetOf(world.Hashes(dst.Log.Heads())); !hs.Equal(wantHeads2) {
			tb.Fatalf("second bounded merge n=%d: heads %v, unreferenced among kept entries %v", bound2, world.Shorts(hs.Sorted()), world.Shorts(wantHeads2.Sorted()))
		}
		secondStage = bound < total
	}
	// third stage: ANOTHER replica (whole history, possibly behind) makes a bounded merge FROM the windowed log; the
	// merged history may then have gaps (the window's oldest entries name predecessors nobody holds, skip
	// references jump over them)
	if p.Third && n >= 2 {
		c := p.C % n
		if c == a {
			c = (a + 1) % n
		}
		rep := w.Reps[c]
		everything := union.Clone()
		everything.Union(rep.Model)
		if !w.Reg.StrictTotalOn(w.Order, everything) || w.Order == world.OrderFWW {
			goto classify
		}
		recvEntries, recvHeads := rep.Log.GetEntries().Slice(), rep.Log.Heads().Slice()
		recvClock := entry.NewLamportClock(rep.Log.Clock.GetID(), rep.Log.Clock.GetTime())
		if p.Behind > 0 && total >= 2 {
			// a replica that stopped earlier: it holds the oldest k entries of the merged history (a prefix of a
			// causal linearisation is causally closed) and nothing else
			k := 1 + (p.Behind-1)%(total-1)
			prefix := world.SetOf(full[:k])
			recvEntries, recvHeads = nil, nil
			hs := w.Reg.ModelHeads(prefix)
			maxT := 0
			for _, h := range full[:k] {
				e, ok := twin.Get(w.Reg.Get(h).Cid)
				if !ok {
					tb.Fatalf("harness: entry %s missing from the unbounded twin", world.Short(h))
				}
				recvEntries = append(recvEntries, e)
				if hs.Has(h) {
					recvHeads = append(recvHeads, e)
				}
				if t := e.GetClock().GetTime(); t > maxT {
					maxT = t
				}
			}
			recvClock = entry.NewLamportClock(rep.Log.Clock.GetID(), maxT)
		}
		mk := func() *ipfslog.IPFSLog {
			l, err := world.NewLog(w.Store.API(), rep.Writer, sim.LogID, w.Order, w.IO, &ipfslog.LogOptions{Entries: entry.NewOrderedMapFromEntries(recvEntries), Heads: recvHeads, Clock: recvClock})
			if err != nil {
				tb.Fatalf("harness: twin: %v", err)
			}
			return l
		}
		recv, recvTwin := mk(), mk()
		if _, err := recvTwin.Join(dst.Log, -1); err != nil {
			tb.Fatalf("unbounded merge from a windowed log failed: %v", err)
		}
		full3 := world.Hashes(recvTwin.Values())
		total3 := len(full3)
		cands3 := []int{0, 1, total3 - 1, total3, total3 + 1, p.N2 % (total3 + 4), (p.N2 / 7) % (total3 + 4), (p.N2 / 3) % (total3 + 4)}
		bound3 := cands3[(p.N2/5)%len(cands3)]
		if bound3 < 0 {
			bound3 = 0
		}
		if _, err := recv.Join(dst.Log, bound3); err != nil {
			tb.Fatalf("bounded merge (n=%d) from a windowed log returned error: %v", bound3, err)
		}
		want3 := bound3
		if total3 < want3 {
			want3 = total3
		}
		vals3 := world.Hashes(recv.Values())
		ents3 := entriesOf(recv)
		if len(vals3) != want3 || len(ents3) != want3 || recv.Len() != want3 {
			tb.Fatalf("bounded merge n=%d from a windowed log (the unbounded merge linearises %d entries): Values has %d, entries %d, Len %d; want %d", bound3, total3, len(vals3), len(ents3), recv.Len(), want3)
		}
		if exp := full3[total3-want3:]; !world.EqualStrings(vals3, exp) {
			tb.Fatalf("bounded merge n=%d from a windowed log: values are not the last %d of what the unbounded merge linearises:\n got  %v\n want %v", bound3, want3, world.Shorts(vals3), world.Shorts(exp))
		}
		wantHeads3 := w.Reg.ModelHeads(ents3)
		if hs := world.SetOf(world.Hashes(recv.Heads())); !hs.Equal(wantHeads3) {
			tb.Fatalf("bounded merge n=%d from a windowed log: heads %v, unreferenced among kept entries %v", bound3, world.Shorts(hs.Sorted()), world.Shorts(wantHeads3.Sorted()))
		}
		thirdStage = bound < total
	}
classify:
	fork := w.Reg.HasFork(union)
	cutsFork := false
	if bound < total && bound > 0 {
		cutsFork = len(wantHeads) >= 2 || w.Reg.HasFork(ents)
	}
	cl := worldClasses(w)
	if secondStage {
		cl = append(cl, "second-bounded-merge-into-a-windowed-log")
	}
	if thirdStage {
		cl = append(cl, "bounded-merge-from-a-windowed-log")
	}
	switch {
	case bound == 0:
		cl = append(cl, "n=0")
	case bound > total:
		cl = append(cl, "n>total")
	case bound == total:
		cl = append(cl, "n=total")
	default:
		cl = append(cl, "0<n<total")
	}
	return ev.Result{NonTrivial: fork && (bound > total || cutsFork), Classes: cl}
}

func TestC16(t *testing.T) {
	c := ev.Get("C16")
	c.Rule = "a generated multi-replica program (as C01, no final exchange) builds the logs; two of its replicas and a bound n in [0,total+3] (biased to 0,1,total-1,total,total+1; sometimes a 'no limit' sentinel: 1000*(total+1), 2^62, MaxInt) are drawn; A.Join(B,n) is compared with the last min(n,total) entries of the reference sort of A's set ∪ B's set (exact when the ordering is strict-total there, 'nothing excluded is strictly newer' otherwise), heads with the unreferenced entries among the kept ones, and for n >= total with a twin replica that did the unbounded merge. In a third of the cases the (now possibly windowed) log then makes a second bounded merge from another replica; it is compared with a twin that made the same first merge and the unbounded form of the second one. In a third of the cases another replica - replica C with its whole history, or one that stopped earlier and holds the oldest k entries of the merged history - makes a bounded merge FROM the windowed log (the merged history can have gaps that skip references jump over); it is compared with a twin that made the unbounded merge from the same windowed log. Non-trivial = merged set has a fork and (n > total or the truncation keeps a forked/multi-headed suffix); distinct = distinct program."
	ev.Check(t, "C16", genC16, runC16)
}
