package crdt

import (
	"testing"

	"pgregory.net/rapid"

	ipfslog "berty.tech/go-ipfs-log"
	"berty.tech/go-ipfs-log/entry"

	"verifharness/ev"
	"verifharness/sim"
	"verifharness/world"
)

type c16Prog struct {
	World sim.Prog `json:"world"`
	A     int      `json:"a"`
	B     int      `json:"b"`
	N     int      `json:"n"` // bound = N mod (total+4)
}

func genC16(t *rapid.T) c16Prog {
	cfg := genCfg(false)
	cfg.MaxOps = ev.Scale(24, 60)
	w := sim.Gen(t, cfg)
	return c16Prog{
		World: w,
		A:     rapid.IntRange(0, w.Replicas-1).Draw(t, "dst"),
		B:     rapid.IntRange(0, w.Replicas-1).Draw(t, "src"),
		N:     rapid.IntRange(0, 1<<16).Draw(t, "n"),
	}
}

// C16 — a size-bounded merge keeps exactly the newest entries of the full merge.
func runC16(tb ev.TB, p c16Prog) ev.Result {
	w := sim.Run(tb, &p.World, func(tb ev.TB, w *sim.World, info *sim.OpInfo) {
		switch info.Op.Kind {
		case "append", "join", "rebuild":
			sim.MustOK(tb, info)
		}
	})
	n := len(w.Reps)
	a, b := p.A%n, p.B%n
	if a == b {
		b = (a + 1) % n
	}
	dst, src := w.Reps[a], w.Reps[b]
	union := dst.Model.Clone()
	union.Union(src.Model)
	total := len(union)
	// bias the bound to the interesting values
	cands := []int{0, 1, total - 1, total, total + 1, total + 3, p.N % (total + 4), p.N % (total + 4), (p.N / 7) % (total + 4)}
	bound := cands[p.N%len(cands)]
	if bound < 0 {
		bound = 0
	}
	strict := w.Reg.StrictTotalOn(w.Order, union)
	full := w.Reg.RefSort(w.Order, union)

	// twin that performs the unbounded merge (for bound >= total comparison)
	twin, err := world.NewLog(w.Store.API(), dst.Writer, sim.LogID, w.Order, w.IO, &ipfslog.LogOptions{Entries: dst.Log.GetEntries(), Heads: dst.Log.Heads().Slice(), Clock: entry.NewLamportClock(dst.Log.Clock.GetID(), dst.Log.Clock.GetTime())})
	if err != nil {
		tb.Fatalf("harness: twin: %v", err)
	}
	if _, err := twin.Join(src.Log, -1); err != nil {
		tb.Fatalf("unbounded merge failed: %v", err)
	}

	ret, err := dst.Log.Join(src.Log, bound) // a panic here is a violation (rapid reports it)
	if err != nil {
		tb.Fatalf("bounded merge (n=%d, total=%d) returned error: %v", bound, total, err)
	}
	_ = ret
	want := bound
	if total < want {
		want = total
	}
	vals := world.Hashes(dst.Log.Values())
	ents := entriesOf(dst.Log)
	if len(vals) != want || len(ents) != want || dst.Log.Len() != want {
		tb.Fatalf("bounded merge n=%d of total %d: Values has %d, entries %d, Len %d; want %d", bound, total, len(vals), len(ents), dst.Log.Len(), want)
	}
	if !world.SetOf(vals).Equal(ents) {
		tb.Fatalf("Values() and GetEntries() disagree after bounded merge")
	}
	for h := range ents {
		if !union.Has(h) {
			tb.Fatalf("bounded merge produced foreign entry %s", world.Short(h))
		}
	}
	if strict {
		exp := full[len(full)-want:]
		if !world.EqualStrings(vals, exp) {
			tb.Fatalf("bounded merge n=%d of total %d: values are not the last %d of the full linearisation:\n got  %v\n want %v", bound, total, want, world.Shorts(vals), world.Shorts(exp))
		}
	} else {
		// up to ties: nothing excluded is strictly newer than something included
		for _, x := range full {
			if ents.Has(x) {
				continue
			}
			for h := range ents {
				if world.RefCompare(w.Order, w.Reg.Get(x), w.Reg.Get(h)) > 0 {
					tb.Fatalf("bounded merge n=%d: excluded entry %s is strictly newer than included %s", bound, world.Short(x), world.Short(h))
				}
			}
		}
	}
	// heads == unreferenced among the kept entries
	wantHeads := w.Reg.ModelHeads(ents)
	for name, hs := range map[string][]string{"Heads()": world.Hashes(dst.Log.Heads()), "ToSnapshot().Heads": world.CidHashes(dst.Log.ToSnapshot().Heads)} {
		if !world.SetOf(hs).Equal(wantHeads) || len(hs) != len(wantHeads) {
			tb.Fatalf("bounded merge n=%d of %d: %s = %v, unreferenced among kept entries = %v", bound, total, name, world.Shorts(hs), world.Shorts(wantHeads.Sorted()))
		}
	}
	if bound >= total {
		ts, ds := takeSnap(twin), takeSnap(dst.Log)
		if !strict {
			ts.Values, ds.Values = nil, nil
			ts.HeadsSeq, ds.HeadsSeq, ts.JSON, ds.JSON = nil, nil, nil, nil
		}
		if d := ts.diff(ds); d != "" {
			tb.Fatalf("bound %d >= merged size %d must behave like the unbounded merge: %s", bound, total, d)
		}
	}
	fork := w.Reg.HasFork(union)
	cutsFork := false
	if bound < total && bound > 0 {
		cutsFork = len(wantHeads) >= 2 || w.Reg.HasFork(ents)
	}
	cl := worldClasses(w)
	switch {
	case bound == 0:
		cl = append(cl, "n=0")
	case bound > total:
		cl = append(cl, "n>total")
	case bound == total:
		cl = append(cl, "n=total")
	default:
		cl = append(cl, "0<n<total")
	}
	return ev.Result{NonTrivial: fork && (bound > total || cutsFork), Classes: cl}
}

func TestC16(t *testing.T) {
	c := ev.Get("C16")
	c.Rule = "a generated multi-replica program (as C01, no final exchange) builds the logs; two of its replicas and a bound n in [0,total+3] (biased to 0,1,total-1,total,total+1) are drawn; A.Join(B,n) is compared with the last min(n,total) entries of the reference sort of A's set ∪ B's set (exact when the ordering is strict-total there, 'nothing excluded is strictly newer' otherwise), heads with the unreferenced entries among the kept ones, and for n >= total with a twin replica that did the unbounded merge. Non-trivial = merged set has a fork and (n > total or the truncation keeps a forked/multi-headed suffix); distinct = distinct program."
	ev.Check(t, "C16", genC16, runC16)
}
