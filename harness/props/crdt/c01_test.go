package crdt

import (
	"strings"
	"testing"

	"pgregory.net/rapid"

	"verifharness/ev"
	"verifharness/sim"
	"verifharness/world"
)

// C01 — replicas that merged the same entries converge.
func runC01(tb ev.TB, p sim.Prog) ev.Result {
	nt := false
	var pre snap
	obs := func(tb ev.TB, w *sim.World, info *sim.OpInfo) {
		r := w.Reps[info.Dst]
		switch info.Op.Kind {
		case "append", "join", "rebuild", "loadtail":
			sim.MustOK(tb, info)
		}
		// entry set == model set
		got := entriesOf(r.Log)
		if !got.Equal(r.Model) {
			tb.Fatalf("after op #%d %+v: replica %d holds %v, model says %v", info.Index, info.Op, info.Dst, world.Shorts(got.Sorted()), world.Shorts(r.Model.Sorted()))
		}
		// replicas with equal model sets must agree
		groups := map[string][]int{}
		for i, x := range w.Reps {
			groups[x.Model.Key()] = append(groups[x.Model.Key()], i)
		}
		for _, g := range groups {
			if len(g) < 2 {
				continue
			}
			base := w.Reps[g[0]]
			bs := takeSnap(base.Log)
			strict := w.Reg.StrictTotalOn(w.Order, base.Model)
			for _, j := range g[1:] {
				o := w.Reps[j]
				os := takeSnap(o.Log)
				if !world.EqualStrings(bs.Entries, os.Entries) {
					tb.Fatalf("replicas %d,%d merged the same entries but expose different entry sets", g[0], j)
				}
				if !world.EqualStrings(bs.Heads, os.Heads) {
					tb.Fatalf("after op #%d %+v: replicas %d,%d merged the same %d entries but heads differ: %v vs %v", info.Index, info.Op, g[0], j, len(bs.Entries), world.Shorts(bs.Heads), world.Shorts(os.Heads))
				}
				if !world.EqualStrings(world.SortedCopy(bs.JSON), world.SortedCopy(os.JSON)) {
					tb.Fatalf("replicas %d,%d: published head lists differ as sets", g[0], j)
				}
				if strict {
					if !world.EqualStrings(bs.Values, os.Values) {
						tb.Fatalf("after op #%d %+v: replicas %d,%d merged the same entries (strict total order) but values differ:\n %v\n %v", info.Index, info.Op, g[0], j, world.Shorts(bs.Values), world.Shorts(os.Values))
					}
				}
				if len(base.Model) >= 3 && w.Reg.HasFork(base.Model) && strings.Join(base.History, ",") != strings.Join(o.History, ",") {
					nt = true
				}
			}
		}
	}
	// self/empty/other-id merges change nothing: compare full snapshots around them
	w := sim.New(tb, &p)
	exec := func(i int, op sim.Op, sync bool) {
		n := len(w.Reps)
		a := op.A % n
		noop := op.Kind == "selfjoin" || op.Kind == "joinempty" || op.Kind == "joinother" || (op.Kind == "join" && op.B%n == a)
		if noop {
			pre = takeSnap(w.Reps[a].Log)
		}
		info := w.Exec(tb, i, op, sync)
		if noop {
			sim.MustOK(tb, info)
			post := takeSnap(w.Reps[a].Log)
			if w.HadPartial {
				// a log rebuilt by a loader starts with clock 0 and catches up on its first merge: not part of
				// what the statement calls "changes nothing" (entries, heads, values)
				pre.ClockT, post.ClockT = 0, 0
			}
			if d := pre.diff(post); d != "" {
				tb.Fatalf("op #%d %s changed the log: %s", i, info.Op.Kind, d)
			}
		}
		obs(tb, w, info)
	}
	for i, op := range p.Ops {
		exec(i, op, false)
	}
	if len(p.Sync) > 0 {
		w.SyncAll(tb, p.Sync, obs)
		// everything converged: every replica equals replica 0 (checked by obs); also idempotence of a full extra round
		for i := range w.Reps {
			before := takeSnap(w.Reps[i].Log)
			j := (i + 1) % len(w.Reps)
			info := w.Exec(tb, -1, sim.Op{Kind: "join", A: i, B: j}, true)
			sim.MustOK(tb, info)
			after := takeSnap(w.Reps[i].Log)
			if w.HadPartial {
				before.ClockT, after.ClockT = 0, 0 // see above: loader-built logs catch their clock up on the first merge
			}
			if d := before.diff(after); d != "" {
				tb.Fatalf("merging an already merged log changed replica %d: %s", i, d)
			}
		}
	}
	return ev.Result{NonTrivial: nt, Classes: worldClasses(w)}
}

func TestC01(t *testing.T) {
	c := ev.Get("C01")
	c.Rule = "rapid-generated multi-replica programs (2-5 replicas, 1-4 writers possibly shared, default or hash ordering, default or link-key codec; appends with pointer counts, unbounded joins, self/empty/other-id joins, identity changes, rebuilds from entries) followed by a complete exchange in a generated pair order with generated repetitions. After every operation the entry set is compared with the set model and all replicas holding equal sets are compared (heads, published heads, values when the ordering is strict-total there). Non-trivial = two replicas reached the same set of >= 3 entries containing a fork through different operation/merge histories; distinct = distinct program."
	c.Assumptions = []string{"FirstWriteWins is not used as a log ordering (it orders descendants before ancestors)", "clock times stay far below MaxInt"}
	ev.Check(t, "C01", func(t *rapid.T) sim.Prog { return sim.Gen(t, genCfg(true)) }, runC01)
}
