package crdt

import (
	"testing"

	"pgregory.net/rapid"

	"verifharness/ev"
	"verifharness/sim"
	"verifharness/world"
)

// C02 — heads are exactly the entries nothing else in the log points to.
func runC02(tb ev.TB, p sim.Prog) ev.Result {
	nt := false
	obs := func(tb ev.TB, w *sim.World, info *sim.OpInfo) {
		switch info.Op.Kind {
		case "append", "join", "rebuild", "loadtail":
			sim.MustOK(tb, info)
		}
		if info.Src >= 0 {
			src := w.Reps[info.Src].Model
			inter := 0
			for h := range src {
				if info.Before.Has(h) {
					inter++
				}
			}
			if (inter > 0 && inter < len(src) && inter < len(info.Before)) || (len(src) > 0 && inter == len(src)) {
				nt = true // partially overlapping, or already-merged source
			}
		}
		for ri, r := range w.Reps {
			want := w.Reg.ModelHeads(r.Model)
			if len(want) >= 2 {
				nt = true
			}
			views := map[string][]string{
				"Heads()":            world.Hashes(r.Log.Heads()),
				"RawHeads()":         world.Hashes(r.Log.RawHeads()),
				"ToSnapshot().Heads": world.CidHashes(r.Log.ToSnapshot().Heads),
				"ToJSONLog().Heads":  world.CidHashes(r.Log.ToJSONLog().Heads),
			}
			ents := entriesOf(r.Log)
			for name, hs := range views {
				got := world.SetOf(hs)
				if len(got) != len(hs) {
					tb.Fatalf("after op #%d %+v: replica %d %s has duplicates: %v", info.Index, info.Op, ri, name, world.Shorts(hs))
				}
				if !got.Equal(want) {
					tb.Fatalf("after op #%d %+v: replica %d %s = %v, but the unreferenced entries are %v", info.Index, info.Op, ri, name, world.Shorts(got.Sorted()), world.Shorts(want.Sorted()))
				}
				for h := range got {
					if !ents.Has(h) {
						tb.Fatalf("replica %d %s contains %s which is not an entry of the log", ri, name, world.Short(h))
					}
				}
				if (len(got) == 0) != (len(ents) == 0) {
					tb.Fatalf("replica %d: %s empty=%v but log empty=%v", ri, name, len(got) == 0, len(ents) == 0)
				}
			}
		}
	}
	w := sim.Run(tb, &p, obs)
	return ev.Result{NonTrivial: nt, Classes: worldClasses(w)}
}

func TestC02(t *testing.T) {
	c := ev.Get("C02")
	c.Rule = "same multi-replica program generator as C01 (with final exchange). After every operation, on every replica, Heads(), RawHeads(), ToSnapshot().Heads and ToJSONLog().Heads are compared as sets with {e in model set | no member of the set names e in next} computed from the harness registry. Non-trivial = a state with >= 2 heads was reached, or a merge of partially overlapping logs, or a merge of an already merged source; distinct = distinct program."
	ev.Check(t, "C02", func(t *rapid.T) sim.Prog { return sim.Gen(t, genCfg(true)) }, runC02)
}
