package crdt

import (
	"bytes"
	"math/bits"
	"testing"

	"pgregory.net/rapid"

	"verifharness/ev"
	"verifharness/sim"
	"verifharness/world"
)

// C04 — every appended entry dominates the log it was appended to.
func runC04(tb ev.TB, p sim.Prog) ev.Result {
	nt := false
	obs := func(tb ev.TB, w *sim.World, info *sim.OpInfo) {
		switch info.Op.Kind {
		case "append", "join", "rebuild", "load", "loadtail":
			sim.MustOK(tb, info)
		}
		if info.Op.Kind != "append" {
			return
		}
		r := w.Reps[info.Dst]
		e := info.Entry
		in := w.Reg.Get(e.GetHash().String())
		before := info.Before
		// next == heads before
		wantNext := w.Reg.ModelHeads(before)
		gotNext := world.SetOf(in.Next)
		if len(gotNext) != len(in.Next) {
			tb.Fatalf("append #%d: duplicate predecessor in %v", info.Index, world.Shorts(in.Next))
		}
		if !gotNext.Equal(wantNext) {
			tb.Fatalf("append #%d on replica %d: next = %v, heads were %v", info.Index, info.Dst, world.Shorts(gotNext.Sorted()), world.Shorts(wantNext.Sorted()))
		}
		// clock id == writer's public key
		pk := world.Identity(r.Writer).PublicKey
		if !bytes.Equal(in.ClockID, pk) {
			tb.Fatalf("append #%d: clock id %x is not the writer's public key %x", info.Index, in.ClockID, pk)
		}
		if !bytes.Equal(in.Key, pk) {
			tb.Fatalf("append #%d: entry key is not the writer's public key", info.Index)
		}
		// time strictly greater than everything held before
		maxT, maxRemote := -1, false
		writers := map[string]struct{}{}
		for h := range before {
			x := w.Reg.Get(h)
			writers[string(x.ClockID)] = struct{}{}
			if x.Time > maxT {
				maxT = x.Time
				maxRemote = !bytes.Equal(x.ClockID, pk)
			}
		}
		if len(before) > 0 && in.Time <= maxT {
			tb.Fatalf("append #%d on replica %d: clock time %d is not greater than the largest time %d already in the log", info.Index, info.Dst, in.Time, maxT)
		}
		if in.Time < 1 {
			tb.Fatalf("append #%d: clock time %d", info.Index, in.Time)
		}
		// single head
		hs := world.Hashes(r.Log.Heads())
		if len(hs) != 1 || hs[0] != in.Hash {
			tb.Fatalf("append #%d: heads after append are %v, want only the new entry", info.Index, world.Shorts(hs))
		}
		if got, ok := r.Log.Get(e.GetHash()); !ok || got.GetHash() != e.GetHash() {
			tb.Fatalf("append #%d: entry not retrievable", info.Index)
		}
		// refs: in strict causal past, disjoint from next, no duplicates, logarithmic
		past := w.Reg.Past(in.Next, nil)
		seen := world.Set{}
		for _, rf := range in.Refs {
			if seen.Has(rf) {
				tb.Fatalf("append #%d: duplicate reference %s", info.Index, world.Short(rf))
			}
			seen.Add(rf)
			if gotNext.Has(rf) {
				tb.Fatalf("append #%d: reference %s is also a predecessor", info.Index, world.Short(rf))
			}
			if !past.Has(rf) {
				tb.Fatalf("append #%d: reference %s is not in the entry's causal past", info.Index, world.Short(rf))
			}
			if !before.Has(rf) {
				tb.Fatalf("append #%d: reference %s is not an entry of the log", info.Index, world.Short(rf))
			}
		}
		pc := info.PC
		if pc < 1 {
			pc = 1
		}
		// logarithmic in the requested pointer count: one reference per power of two up to pc, minus the
		// newest entry (always a predecessor), plus the "last known" entry when the log is shorter than pc
		bound := bits.Len(uint(pc)) - 1 // floor(log2(pc))
		if len(before) < pc {
			bound++
		}
		if len(in.Refs) > bound+c04Slack {
			tb.Fatalf("append #%d: %d references for pointer count %d on a log of %d entries with %d heads (bound %d)", info.Index, len(in.Refs), pc, len(before), len(wantNext), bound)
		}
		if (len(writers) >= 2 && maxRemote) || (pc > 1 && w.Reg.HasFork(before)) {
			nt = true
		}
	}
	w := sim.Run(tb, &p, obs)
	return ev.Result{NonTrivial: nt, Classes: worldClasses(w)}
}

func TestC04(t *testing.T) {
	c := ev.Get("C04")
	c.Rule = "multi-replica program generator of C01 with extra weight on appends (pointer counts from {0,1,2,3,4,8,16,64}), identity changes and rebuilds from entries (with and without heads); the log's SortFn is LastWriteWins, the hash ordering or FirstWriteWins; initial clocks up to 1.7e18. Every append is checked against the model state just before it: next == model heads, clock id == writer public key, time > max time held, single head, references in the strict causal past / disjoint from next / duplicate-free / <= floor(log2(pc))+1 (the number of powers of two up to pc), one more when the log is shorter than pc. Non-trivial = an append on a replica holding entries of >= 2 writers whose largest time belongs to a remote writer, or pointer count > 1 on a forked log; distinct = distinct program."
	c.Assumptions = []string{"clock times stay far below MaxInt (time+1 must overflow at MaxInt in any implementation)"}
	ev.Check(t, "C04", func(t *rapid.T) sim.Prog {
		cfg := genCfg(false)
		cfg.AppendBias = 4
		cfg.WithLoad = true
		cfg.Orders = []int{0, 0, 1, 2} // also FirstWriteWins: what an append produces does not depend on the log's SortFn
		return sim.Gen(t, cfg)
	}, runC04)
}

// c04Slack is added to the exact envelope of the current algorithm: the asserted bound is the number of powers of
// two up to the pointer count (floor(log2 pc) + 1), plus one when the log is shorter than the pointer count.
var c04Slack = ev.EnvInt("VERIF_C04_SLACK", 1)
