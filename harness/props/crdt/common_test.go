package crdt

import (
	"fmt"
	"sort"
	"testing"

	ipfslog "berty.tech/go-ipfs-log"
	"berty.tech/go-ipfs-log/iface"

	"verifharness/ev"
	"verifharness/sim"
	"verifharness/world"
)

func TestMain(m *testing.M) { ev.Main(m) }

// snap is the full observable state of a log.
type snap struct {
	Entries  []string // sorted
	Heads    []string // sorted
	HeadsSeq []string // Heads() order
	JSON     []string // ToJSONLog().Heads order
	Values   []string
	Len      int
	ClockID  string
	ClockT   int
}

func takeSnap(l *ipfslog.IPFSLog) snap {
	s := snap{}
	s.Entries = world.SortedCopy(world.Hashes(l.GetEntries()))
	s.HeadsSeq = world.Hashes(l.Heads())
	s.Heads = world.SortedCopy(s.HeadsSeq)
	s.JSON = world.CidHashes(l.ToJSONLog().Heads)
	s.Values = world.Hashes(l.Values())
	s.Len = l.Len()
	s.ClockID = string(l.Clock.GetID())
	s.ClockT = l.Clock.GetTime()
	return s
}

// diff compares what the properties call the state of a log: its entries, its heads (as a set, also as published),
// its linearised values, its size and its clock (observable through the next append). The order in which heads are
// listed is reported by takeSnap but not compared: no property speaks about it.
func (a snap) diff(b snap) string {
	switch {
	case !world.EqualStrings(a.Entries, b.Entries):
		return fmt.Sprintf("entries %v -> %v", world.Shorts(a.Entries), world.Shorts(b.Entries))
	case !world.EqualStrings(a.Heads, b.Heads):
		return fmt.Sprintf("heads %v -> %v", world.Shorts(a.Heads), world.Shorts(b.Heads))
	case !world.EqualStrings(world.SortedCopy(a.JSON), world.SortedCopy(b.JSON)):
		return fmt.Sprintf("published heads %v -> %v", world.Shorts(a.JSON), world.Shorts(b.JSON))
	case !world.EqualStrings(a.Values, b.Values):
		return fmt.Sprintf("values %v -> %v", world.Shorts(a.Values), world.Shorts(b.Values))
	case a.Len != b.Len:
		return fmt.Sprintf("len %d -> %d", a.Len, b.Len)
	case a.ClockID != b.ClockID || a.ClockT != b.ClockT:
		// observable through the time of the next append
		return fmt.Sprintf("clock (%x,%d) -> (%x,%d)", a.ClockID, a.ClockT, b.ClockID, b.ClockT)
	}
	return ""
}

func setOfStrings(xs []string) world.Set { return world.SetOf(xs) }

func sortedKeys(m map[string]struct{}) []string {
	o := make([]string, 0, len(m))
	for k := range m {
		o = append(o, k)
	}
	sort.Strings(o)
	return o
}

// worldClasses labels a finished world for the class histogram.
func worldClasses(w *sim.World) []string {
	var cl []string
	u := w.Union()
	if w.Reg.HasFork(u) {
		cl = append(cl, "fork")
	}
	if w.Reg.HasDiamond(u) {
		cl = append(cl, "diamond")
	}
	multi := false
	for _, r := range w.Reps {
		if len(w.Reg.ModelHeads(r.Model)) >= 2 {
			multi = true
		}
	}
	if multi {
		cl = append(cl, "final-multi-head")
	}
	if !w.Reg.StrictTotalOn(world.OrderLWW, u) {
		cl = append(cl, "equal-(id,time)-pair")
	}
	ws := map[int]int{}
	for _, r := range w.Reps {
		ws[r.Writer]++
	}
	for _, c := range ws {
		if c > 1 {
			cl = append(cl, "shared-writer")
			break
		}
	}
	cl = append(cl, "order-"+w.Order.String(), "codec-"+world.Codec(w.Prog.Codec).String())
	return cl
}

func entriesOf(l iface.IPFSLog) world.Set { return world.SetOf(world.Hashes(l.GetEntries())) }

// codecs allowed in the CRDT engine.
var crdtCodecs = []int{0, 1}

func genCfg(withSync bool) sim.GenConfig {
	return sim.GenConfig{
		MaxReplicas:     ev.Scale(4, 5),
		MaxOps:          ev.Scale(36, 90),
		MinOps:          3,
		Codecs:          crdtCodecs,
		WithSync:        withSync,
		LargeOneIn:      ev.Scale(128, 96),
		WideOneIn:       ev.Scale(64, 48),
		SharedOptsOneIn: 5,
	}
}

// Note: sim can also let a replica restart from a length-limited load ("loadtail", GenConfig.WithPartial).
// No CRDT check enables it: such logs are not causally closed, they are outside the histories the
// statements quantify over (appends and unbounded merges), and the unchanged library itself does not keep
// the structural clauses on them (observed at thorough scale: a head that a held entry references after a
// limited manifest load; an empty merge that drops a head; Values() that is not a supersequence of the
// previous one) - asserting anything there would raise alarms on code where the properties hold.
