package crdt

import (
	ipfslog "berty.tech/go-ipfs-log"
	ifc "berty.tech/go-ipfs-log/iface"
)

func asLog(l *ipfslog.IPFSLog) ifc.IPFSLog { return l }
