package crdt

import (
	"testing"

	"github.com/ipfs/go-cid"
	"pgregory.net/rapid"

	"verifharness/ev"
	"verifharness/sim"
	"verifharness/world"
)

func isSubsequence(small, big []string) bool {
	i := 0
	for _, x := range big {
		if i < len(small) && small[i] == x {
			i++
		}
	}
	return i == len(small)
}

// C05 — append-only; entries never change or vanish; no aliasing damage.
func runC05(tb ev.TB, p sim.Prog) ev.Result {
	nt := false
	type repState struct {
		seen   map[string]int // hash -> op index first seen
		values []string
		length int
	}
	var states []*repState
	objDigest := map[any]string{}   // entry object -> full digest when first seen (any replica)
	sharedSince := map[string]int{} // hash -> op index at which it was first held by >= 2 replicas
	obs := func(tb ev.TB, w *sim.World, info *sim.OpInfo) {
		switch info.Op.Kind {
		case "append", "join", "rebuild", "load", "loadtail":
			sim.MustOK(tb, info)
		}
		if states == nil {
			for range w.Reps {
				states = append(states, &repState{seen: map[string]int{}})
			}
		}
		if info.Partial {
			// a restart from a length-limited load is a new log instance holding fewer entries
			states[info.Dst] = &repState{seen: map[string]int{}}
		}
		holders := map[string]int{}
		for ri, r := range w.Reps {
			st := states[ri]
			ents := r.Log.GetEntries()
			// first-seen registration + digests of everything currently held
			for _, h := range world.Hashes(ents) {
				if _, ok := st.seen[h]; !ok {
					st.seen[h] = info.Index
				}
				holders[h]++
			}
			for h := range st.seen {
				c, _ := cid.Decode(h)
				e, ok := r.Log.Get(c)
				if !ok {
					tb.Fatalf("after op #%d %+v: entry %s vanished from replica %d", info.Index, info.Op, world.Short(h), ri)
				}
				if !r.Log.Has(c) {
					tb.Fatalf("Has() false for held entry")
				}
				if e.GetHash().String() != h {
					tb.Fatalf("Get(%s) returned entry with hash %s", world.Short(h), world.Short(e.GetHash().String()))
				}
				in := w.Reg.Get(h)
				if in == nil {
					tb.Fatalf("harness: entry %s not in registry", h)
				}
				if d := world.ContentDigest(e); d != in.Content {
					tb.Fatalf("after op #%d %+v (on replica %d): content of entry %s held by replica %d changed", info.Index, info.Op, info.Dst, world.Short(h), ri)
				}
				// every field of this very object (incl. additional data, identity) is frozen from the
				// moment the object was first seen in any log
				full := world.Digest(e)
				if first, ok := objDigest[e]; !ok {
					objDigest[e] = full
				} else if first != full {
					tb.Fatalf("after op #%d %+v (on replica %d): entry object %s held by replica %d was modified in place", info.Index, info.Op, info.Dst, world.Short(h), ri)
				}
				// the stored block is still there and unchanged
				if raw, ok := w.Store.Raw(c); !ok || len(raw) == 0 {
					tb.Fatalf("block of %s missing from the store", world.Short(h))
				}
			}
			l := r.Log.Len()
			if l < st.length {
				tb.Fatalf("after op #%d %+v: Len() of replica %d decreased %d -> %d", info.Index, info.Op, ri, st.length, l)
			}
			st.length = l
			vals := world.Hashes(r.Log.Values())
			if w.Reg.StrictTotalOn(w.Order, r.Model) {
				if !isSubsequence(st.values, vals) {
					tb.Fatalf("after op #%d %+v: previous Values() of replica %d is not a subsequence of the new one:\n prev %v\n new  %v", info.Index, info.Op, ri, world.Shorts(st.values), world.Shorts(vals))
				}
			} else {
				nv := world.SetOf(vals)
				for _, h := range st.values {
					if !nv.Has(h) {
						tb.Fatalf("entry %s dropped from Values() of replica %d", world.Short(h), ri)
					}
				}
			}
			st.values = vals
		}
		for h, n := range holders {
			if n >= 2 {
				if _, ok := sharedSince[h]; !ok {
					sharedSince[h] = info.Index
				} else if info.Index-sharedSince[h] >= 3 {
					nt = true
				}
			}
		}
	}
	w := sim.Run(tb, &p, obs)
	// block bytes decode to the same entry (byte-identical content in the store)
	for _, h := range w.Reg.All() {
		in := w.Reg.Get(h)
		if raw, ok := w.Store.Raw(in.Cid); ok {
			c2, err := in.Cid.Prefix().Sum(raw)
			if err != nil || !c2.Equals(in.Cid) {
				tb.Fatalf("stored block of %s no longer hashes to its identifier", world.Short(h))
			}
		}
	}
	return ev.Result{NonTrivial: nt, Classes: worldClasses(w)}
}

func TestC05(t *testing.T) {
	c := ev.Get("C05")
	c.Rule = "multi-replica program generator of C01 (appends, unbounded merges, identity changes, rebuilds; default and link-key codecs). After every operation, for every replica, every hash ever seen in it must still be returned by Get/Has with a canonical digest (all fields incl. additional data) equal to the digest recorded when the entry was created — the registry is global, so damage through shared entry objects shows up on other replicas; Len() never decreases; the previous Values() is a subsequence of the new one when the ordering is strict-total on the new set (set containment otherwise); stored blocks still hash to their CIDs. Non-trivial = an entry object held by >= 2 replicas survived >= 3 later operations; distinct = distinct program."
	c.Assumptions = []string{"bounded merges are excluded here (they are C16)", "a rebuild (NewLog from the replica's own entries) counts as the same log"}
	ev.Check(t, "C05", func(t *rapid.T) sim.Prog {
		cfg := genCfg(true)
		cfg.WithLoad = true
		return sim.Gen(t, cfg)
	}, runC05)
}
