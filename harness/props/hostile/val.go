package hostile

import (
	"encoding/json"
	"fmt"
	"math"
	"sort"

	"github.com/ipfs/go-cid"
	mh "github.com/multiformats/go-multihash"
	"pgregory.net/rapid"

	"verifharness/refenc"
)

// Val is a JSON-serialisable model of a CBOR / JSON value.
type Val struct {
	K string `json:"k"`           // int | neg | str | bytes | bool | null | float | list | map | link | badlink | undef | tag
	I uint64 `json:"i,omitempty"` // int / neg magnitude / tag number
	S string `json:"s,omitempty"` // str
	B []byte `json:"b,omitempty"` // bytes / badlink payload
	L []Val  `json:"l,omitempty"` // list items / tag content (1 item)
	M []KV   `json:"m,omitempty"` // map entries in written order
	C int    `json:"c,omitempty"` // link: index into CID table
}

type KV struct {
	Key string `json:"key"`
	V   Val    `json:"v"`
}

func Int(i uint64) Val  { return Val{K: "int", I: i} }
func Str(s string) Val  { return Val{K: "str", S: s} }
func Null() Val         { return Val{K: "null"} }
func List(l ...Val) Val { return Val{K: "list", L: l} }
func Map(m ...KV) Val   { return Val{K: "map", M: m} }
func Link(i int) Val    { return Val{K: "link", C: i} }
func (v Val) Get(k string) (Val, bool) {
	for _, kv := range v.M {
		if kv.Key == k {
			return kv.V, true
		}
	}
	return Val{}, false
}

func (v *Val) Set(k string, nv Val) {
	for i := range v.M {
		if v.M[i].Key == k {
			v.M[i].V = nv
			return
		}
	}
	v.M = append(v.M, KV{k, nv})
}

func (v *Val) Del(k string) {
	for i := range v.M {
		if v.M[i].Key == k {
			v.M = append(v.M[:i:i], v.M[i+1:]...)
			return
		}
	}
}

// CID table shared by generators: index -> cid. Resolver lets a test map
// indices to real entries of a stored log.
type Resolver func(i int) cid.Cid

func PoolCid(i int) cid.Cid {
	c, err := cid.V1Builder{Codec: cid.DagCBOR, MhType: mh.SHA2_256}.Sum([]byte(fmt.Sprintf("verif-hostile-%d", i)))
	if err != nil {
		panic(err)
	}
	return c
}

// EncodeCBOR writes v as CBOR. sorted = canonical key order, else written order.
func EncodeCBOR(v Val, sorted bool, res Resolver) []byte {
	w := &refenc.W{}
	encCBOR(w, v, sorted, res)
	return w.B
}

func encCBOR(w *refenc.W, v Val, sorted bool, res Resolver) {
	switch v.K {
	case "int":
		w.Uint(v.I)
	case "neg":
		w.NegRaw(v.I)
	case "str":
		w.Text(v.S)
	case "bytes":
		w.Bytes(v.B)
	case "bool":
		if v.I != 0 {
			w.B = append(w.B, 0xf5)
		} else {
			w.B = append(w.B, 0xf4)
		}
	case "null":
		w.Null()
	case "undef":
		w.B = append(w.B, 0xf7)
	case "float":
		b := math.Float64bits(floatTable[v.I%uint64(len(floatTable))])
		w.B = append(w.B, 0xfb, byte(b>>56), byte(b>>48), byte(b>>40), byte(b>>32), byte(b>>24), byte(b>>16), byte(b>>8), byte(b))
	case "list":
		w.Array(len(v.L))
		for _, x := range v.L {
			encCBOR(w, x, sorted, res)
		}
	case "map":
		m := append([]KV(nil), v.M...)
		if sorted {
			sort.SliceStable(m, func(i, j int) bool {
				if len(m[i].Key) != len(m[j].Key) {
					return len(m[i].Key) < len(m[j].Key)
				}
				return m[i].Key < m[j].Key
			})
		}
		w.Map(len(m))
		for _, kv := range m {
			w.Text(kv.Key)
			encCBOR(w, kv.V, sorted, res)
		}
	case "link":
		w.Link(res(v.C))
	case "badlink": // tag 42 around arbitrary bytes
		w.B = append(w.B, 0xd8, 42)
		w.Bytes(v.B)
	case "tag":
		w.B = append(w.B, 0xd8, byte(v.I%256))
		if len(v.L) > 0 {
			encCBOR(w, v.L[0], sorted, res)
		} else {
			w.Null()
		}
	default:
		w.Null()
	}
}

// ToJSON converts v to a JSON document (legacy codec shape). Links become
// strings, bytes become strings.
func ToJSON(v Val, res Resolver) []byte {
	b, err := json.Marshal(toIface(v, res))
	if err != nil {
		return []byte("null")
	}
	return b
}

func toIface(v Val, res Resolver) interface{} {
	switch v.K {
	case "int":
		return v.I
	case "neg":
		return -1 - int64(v.I&math.MaxInt64)
	case "str":
		return v.S
	case "bytes", "badlink":
		return string(v.B)
	case "bool":
		return v.I != 0
	case "float":
		f := floatTable[v.I%uint64(len(floatTable))]
		if math.IsNaN(f) || math.IsInf(f, 0) {
			return 0.5
		}
		return f
	case "list":
		out := make([]interface{}, len(v.L))
		for i, x := range v.L {
			out[i] = toIface(x, res)
		}
		return out
	case "map":
		out := map[string]interface{}{}
		for _, kv := range v.M {
			out[kv.Key] = toIface(kv.V, res)
		}
		return out
	case "link":
		return res(v.C).String()
	}
	return nil
}

var floatTable = []float64{0, 1.5, -2.25, 1e300, math.Inf(1), math.NaN(), 2, -1}

// GenVal generates an arbitrary small value.
func GenVal(depth int) *rapid.Generator[Val] {
	return rapid.Custom(func(t *rapid.T) Val {
		kinds := []string{"int", "int", "neg", "str", "str", "bytes", "bool", "null", "float", "link", "badlink", "undef", "hexstr", "bigint"}
		if depth > 0 {
			kinds = append(kinds, "list", "map", "tag", "list", "map")
		}
		switch rapid.SampledFrom(kinds).Draw(t, "kind") {
		case "int":
			return Int(rapid.Uint64Range(0, 70000).Draw(t, "i"))
		case "bigint":
			return Int(rapid.SampledFrom([]uint64{1 << 31, 1 << 32, 1<<63 - 1, 1 << 63, math.MaxUint64}).Draw(t, "i"))
		case "neg":
			return Val{K: "neg", I: rapid.SampledFrom([]uint64{0, 1, 23, 24, 1 << 31, 1<<63 - 1}).Draw(t, "i")}
		case "str":
			return Str(rapid.SampledFrom([]string{"", "a", "A", "orbitdb", "zz", "0g", "abc", "\xff\xfe", "verif-log", "bafyreigh2akiscaildc", "Qm", "/"}).Draw(t, "s"))
		case "hexstr":
			return Str(rapid.SampledFrom([]string{"00", "0", "04ab", "ff", "3044", "0x12", "ABCD", "abcd"}).Draw(t, "s"))
		case "bytes":
			return Val{K: "bytes", B: rapid.SliceOfN(rapid.Byte(), 0, 6).Draw(t, "b")}
		case "bool":
			return Val{K: "bool", I: uint64(rapid.IntRange(0, 1).Draw(t, "b"))}
		case "null":
			return Null()
		case "undef":
			return Val{K: "undef"}
		case "float":
			return Val{K: "float", I: uint64(rapid.IntRange(0, len(floatTable)-1).Draw(t, "f"))}
		case "link":
			return Link(rapid.IntRange(0, 7).Draw(t, "c"))
		case "badlink":
			return Val{K: "badlink", B: rapid.SampledFrom([][]byte{{}, {0}, {1, 2, 3}, {0, 1, 0x71, 0x12, 0x20, 1, 2}, {0, 0x12, 0x20}}).Draw(t, "b")}
		case "tag":
			return Val{K: "tag", I: uint64(rapid.SampledFrom([]int{0, 1, 2, 24, 42, 55}).Draw(t, "tag")), L: []Val{GenVal(depth-1).Draw(t, "inner")}}
		case "list":
			return Val{K: "list", L: rapid.SliceOfN(GenVal(depth-1), 0, 3).Draw(t, "items")}
		default:
			n := rapid.IntRange(0, 3).Draw(t, "n")
			m := Val{K: "map"}
			for i := 0; i < n; i++ {
				m.M = append(m.M, KV{rapid.SampledFrom([]string{"id", "time", "publicKey", "signatures", "x", "", "heads", "next"}).Draw(t, "key"), GenVal(depth-1).Draw(t, "v")})
			}
			return m
		}
	})
}
