package hostile

import (
	"bytes"
	"context"
	"encoding/base64"
	"encoding/hex"
	"fmt"
	"os"
	"runtime/debug"
	"runtime/pprof"
	"strings"
	"testing"
	"time"

	"github.com/ipfs/go-cid"
	format "github.com/ipfs/go-ipld-format"
	merkledag "github.com/ipfs/go-merkledag"
	mh "github.com/multiformats/go-multihash"
	"pgregory.net/rapid"

	ipfslog "berty.tech/go-ipfs-log"
	"berty.tech/go-ipfs-log/entry"
	"berty.tech/go-ipfs-log/entry/sorting"
	"berty.tech/go-ipfs-log/iface"
	"berty.tech/go-ipfs-log/io/jsonable"

	"verifharness/ev"
	"verifharness/fakeipfs"
	"verifharness/world"
)

func TestMain(m *testing.M) { ev.Main(m) }

type patch struct {
	Path string `json:"path"` // e.g. "clock", "clock.time", "identity.signatures.id", "next", "next[1]", "+extra"
	Act  string `json:"act"`  // delete | null | replace
	V    Val    `json:"v"`
}

type c12Prog struct {
	Shape   string  `json:"shape"` // entry | manifest | pb-entry | pb-manifest | arbitrary
	Patches []patch `json:"patches"`
	Sorted  bool    `json:"sorted"` // canonical key order
	NLinks  int     `json:"nlinks"` // links in the base entry
	Pos     int     `json:"pos"`    // where the hostile block is referenced from in the healthy log
	AsRef   bool    `json:"asRef"`  // referenced via refs instead of next
	Chain   int     `json:"chain"`  // healthy chain length
	Arb     Val     `json:"arb"`    // arbitrary shape value
	Loader  int     `json:"loader"` // 0 entry hash, 1 manifest
	Conc    int     `json:"conc"`   // fetch concurrency of the loads (0 = default)
	Extra   int     `json:"extra"`  // additional undecodable blocks named next to the hostile one
	// entry-linkkey-inner: the link lists sealed with the readers' own key are hostile themselves (a writer who
	// holds the shared key): patches to {next, refs} before sealing, or an arbitrary value sealed instead
	Inner    []patch `json:"inner,omitempty"`
	InnerArb *Val    `json:"innerArb,omitempty"`
	Opts     int     `json:"opts,omitempty"`  // options of the loaders: bit 0 - LogOptions.ID left empty; bit 1 - LogOptions.IO left unset (default codec)
	Debug    bool    `json:"debug,omitempty"` // the codecs run with their debug switch on (SetDebug(true)); output goes to /dev/null
	Fetch    int     `json:"fetch,omitempty"` // optional FetchOptions fields the loads are given: 0 none; 1 a progress channel; 2 a progress channel, a generous timeout, an empty exclusion list and a predicate that excludes nothing; 3 timeout and predicate only
}

// logOpts are the options a loader is called with: a fresh object per call (the loaders fill in what was left out).
func (p c12Prog) logOpts(io iface.IO, isDefault bool) *ipfslog.LogOptions {
	lo := &ipfslog.LogOptions{ID: "verif-log", IO: io}
	if p.Opts&1 != 0 {
		lo.ID = ""
	}
	if p.Opts&2 != 0 && isDefault && !p.Debug {
		lo.IO = nil
	}
	return lo
}

var innerPaths = []string{"next", "refs", "next[0]", "refs[0]", "next[1]", "next[2]", "+extra"}

var entryPaths = []string{"v", "id", "key", "sig", "key", "sig", "hash", "next", "refs", "clock", "clock.id", "clock.time", "payload", "identity", "identity.id", "identity.type", "identity.publicKey", "identity.signatures", "identity.signatures.id", "identity.signatures.publicKey", "next[0]", "refs[0]", "enc_links", "enc_links_nonce", "+extra"}
var manifestPaths = []string{"id", "heads", "heads[0]", "+extra"}
var pbPaths = []string{"hash", "id", "payload", "next", "next[0]", "v", "clock", "clock.id", "clock.time", "key", "sig", "+extra"}

func genC12(t *rapid.T) c12Prog {
	p := c12Prog{
		Shape:  rapid.SampledFrom([]string{"entry", "entry", "entry", "entry-linkkey", "entry-linkkey", "entry-linkkey-inner", "entry-linkkey-inner", "manifest", "pb-entry", "pb-manifest", "arbitrary"}).Draw(t, "shape"),
		Sorted: rapid.IntRange(0, 3).Draw(t, "sorted") > 0,
		NLinks: rapid.IntRange(0, 3).Draw(t, "nlinks"),
		Pos:    rapid.IntRange(0, 5).Draw(t, "pos"),
		AsRef:  rapid.Bool().Draw(t, "asRef"),
		Chain:  rapid.IntRange(2, 6).Draw(t, "chain"),
		Loader: rapid.IntRange(0, 1).Draw(t, "loader"),
		Conc:   rapid.SampledFrom([]int{0, 0, 1, 2, 3}).Draw(t, "conc"),
		Opts:   rapid.SampledFrom([]int{0, 0, 1, 2, 3}).Draw(t, "loaderOpts"),
		Extra:  rapid.SampledFrom([]int{0, 0, 1, 2, 3}).Draw(t, "extra"),
		Debug:  rapid.IntRange(0, 49).Draw(t, "debug") == 31,
		Fetch:  rapid.SampledFrom([]int{0, 0, 1, 1, 2, 3}).Draw(t, "fetch"),
	}
	paths := entryPaths
	if p.Shape == "entry-linkkey" {
		paths = append(append([]string{}, entryPaths...), "enc_links", "enc_links_nonce", "enc_links", "enc_links_nonce", "enc_links_nonce")
	}
	switch p.Shape {
	case "entry-linkkey-inner":
		if rapid.IntRange(0, 5).Draw(t, "innerArb") == 0 {
			v := GenVal(3).Draw(t, "innerVal")
			p.InnerArb = &v
		} else {
			n := rapid.IntRange(1, 2).Draw(t, "ninner")
			for i := 0; i < n; i++ {
				pt := patch{Path: rapid.SampledFrom(innerPaths).Draw(t, "ipath"), Act: rapid.SampledFrom([]string{"delete", "null", "replace", "replace", "samekind", "badlink", "badlink"}).Draw(t, "iact")}
				switch {
				case pt.Act == "badlink":
					pt.Act = "replace"
					pt.V = Val{K: "badlink", B: rapid.SampledFrom([][]byte{{}, {0}, {1}, {1, 2, 3}, {0, 1, 0x71, 0x12, 0x20, 1, 2}, {0, 0x12, 0x20}, {0, 1, 0x71, 0x12, 0}}).Draw(t, "b")}
					if len(pt.Path) < 5 { // a whole list of them
						pt.V = List(pt.V, Link(1))
					}
				case pt.Act == "samekind" && pt.Path != "+extra":
					pt.Act = "replace"
					pt.V = sameKind(pt.Path).Draw(t, "ival")
				case pt.Act == "replace" || pt.Path == "+extra":
					pt.Act = "replace"
					pt.V = GenVal(2).Draw(t, "ival")
				case pt.Act == "samekind":
					pt.Act = "replace"
					pt.V = GenVal(2).Draw(t, "ival")
				}
				p.Inner = append(p.Inner, pt)
			}
		}
		if rapid.IntRange(0, 2).Draw(t, "outer") > 0 {
			return p // the outer block is exactly what an honest writer produces
		}
	case "manifest", "pb-manifest":
		paths = manifestPaths
	case "pb-entry":
		paths = pbPaths
	case "arbitrary":
		p.Arb = GenVal(3).Draw(t, "arb")
		return p
	}
	n := rapid.IntRange(1, 3).Draw(t, "npatches")
	for i := 0; i < n; i++ {
		pt := patch{Path: rapid.SampledFrom(paths).Draw(t, "path"), Act: rapid.SampledFrom([]string{"delete", "delete", "null", "replace", "samekind", "samekind", "samekind"}).Draw(t, "act")}
		if pt.Act == "replace" || pt.Path == "+extra" {
			pt.V = GenVal(2).Draw(t, "val")
		}
		if pt.Act == "samekind" {
			pt.Act = "replace"
			pt.V = sameKind(pt.Path).Draw(t, "val")
		}
		p.Patches = append(p.Patches, pt)
	}
	return p
}

// sameKind generates a value of the kind the schema expects at path, with adversarial content.
func sameKind(path string) *rapid.Generator[Val] {
	switch path {
	case "v", "clock.time":
		return rapid.Map(rapid.SampledFrom([]uint64{0, 1, 2, 3, 255, 1 << 31, 1 << 32, 1<<63 - 1, 1 << 63, 1<<64 - 1}), Int)
	case "next", "refs", "heads":
		return rapid.Custom(func(t *rapid.T) Val {
			n := rapid.SampledFrom([]int{0, 1, 2, 2, 5, 40}).Draw(t, "n")
			l := Val{K: "list", L: []Val{}}
			for i := 0; i < n; i++ {
				l.L = append(l.L, Link(rapid.IntRange(0, 5).Draw(t, "c")))
			}
			return l
		})
	case "next[0]", "refs[0]", "heads[0]":
		return rapid.Map(rapid.IntRange(0, 7), Link)
	case "clock":
		return rapid.SampledFrom([]Val{Map(), Map(KV{"id", Str("")}), Map(KV{"time", Int(5)}), Map(KV{"id", Str("zz")}, KV{"time", Int(1)}), Map(KV{"id", Str("00")}, KV{"time", Int(1 << 62)}), Map(KV{"id", Str("")}, KV{"time", Int(0)})})
	case "identity":
		return rapid.SampledFrom([]Val{Map(), Map(KV{"id", Str("x")}), Map(KV{"signatures", Map()}), Map(KV{"id", Str("")}, KV{"type", Str("")}, KV{"publicKey", Str("")}, KV{"signatures", Map(KV{"id", Str("")}, KV{"publicKey", Str("")})}), Map(KV{"id", Str("x")}, KV{"type", Str("nope")}, KV{"publicKey", Str("04")}, KV{"signatures", Map()})})
	case "identity.signatures":
		return rapid.SampledFrom([]Val{Map(), Map(KV{"id", Str("")}), Map(KV{"publicKey", Str("00")}), Map(KV{"id", Str("zz")}, KV{"publicKey", Str("00")})})
	case "hash":
		return rapid.SampledFrom([]Val{Null(), Str(""), Str("Qm"), Str("bafyreigh2akiscaildc"), Link(1), Int(1)})
	case "enc_links", "enc_links_nonce":
		// base64 of byte strings around every length the cipher cares about (nonce 24, overhead 16), and non-base64
		return rapid.Custom(func(t *rapid.T) Val {
			n := rapid.SampledFrom([]int{0, 1, 15, 16, 17, 23, 24, 25, 31, 32, 40, 48, 100}).Draw(t, "len")
			b := make([]byte, n)
			for i := range b {
				b[i] = byte(rapid.IntRange(0, 255).Draw(t, "byte"))
			}
			enc := base64.StdEncoding.EncodeToString(b)
			switch rapid.IntRange(0, 5).Draw(t, "variant") {
			case 0:
				return Str(enc + "=")
			case 1:
				return Str("!" + enc)
			}
			return Str(enc)
		})
	case "key", "sig", "clock.id", "identity.publicKey", "identity.signatures.id", "identity.signatures.publicKey":
		// hex-carrying fields: besides the fixed pool, hex of short byte strings over the bytes that start keys and DER
		// signatures, every truncation of a real key / signature, and a real one with a byte replaced or appended
		return rapid.OneOf(stringPool(), hexField(), hexField(), hexField(), hexField())
	default: // string fields
		return stringPool()
	}
}

func hexField() *rapid.Generator[Val] {
	{
		return (rapid.Custom(func(t *rapid.T) Val {
			real := [][]byte{mustHex(realKeyHex), mustHex(realSigHex)}[rapid.IntRange(0, 1).Draw(t, "which")]
			switch rapid.IntRange(0, 3).Draw(t, "hexkind") {
			case 0:
				n := rapid.SampledFrom([]int{0, 1, 1, 1, 2, 2, 3, 4, 8}).Draw(t, "n")
				b := make([]byte, n)
				for i := range b {
					b[i] = rapid.SampledFrom([]byte{0x30, 0x02, 0x04, 0x00, 0x01, 0x20, 0x44, 0xff}).Draw(t, "b")
				}
				return hx(b)
			case 1:
				return hx(real[:rapid.OneOf(rapid.IntRange(0, 4), rapid.IntRange(len(real)-4, len(real)), rapid.IntRange(0, len(real))).Draw(t, "cut")])
			case 2:
				b := append([]byte(nil), real...)
				b[rapid.IntRange(0, len(b)-1).Draw(t, "at")] = byte(rapid.IntRange(0, 255).Draw(t, "v"))
				return hx(b)
			default:
				n := rapid.IntRange(1, 3).Draw(t, "extra")
				b := append([]byte(nil), real...)
				for i := 0; i < n; i++ {
					b = append(b, byte(rapid.IntRange(0, 255).Draw(t, "v")))
				}
				return hx(b)
			}
		}))
	}
}

const realKeyHex = "04d171dd56208cc1397b1c8b2aee7b91cbdc3aa18a31cec07f9377d08b698658ee8868810747db562e590e3a74971feec0a706e0d6fed77057793c8c9f0a2847ba"
const realSigHex = "304402203618982de57d8d7ed893c7a4124f3cdab631c67852e1ccf7fb982d44a9238a1e02200148219cf4ee971ddf2ed9c6f07c1340660a6efdf8c3ffe49c3be0f732c55ebe"

func mustHex(s string) []byte {
	b, err := hex.DecodeString(s)
	if err != nil {
		panic(err)
	}
	return b
}

func stringPool() *rapid.Generator[Val] {
	{
		return rapid.Map(rapid.SampledFrom([]string{"", "0", "00", "zz", "04", "3044", "ff\xff", "\xff\xfe", "verif-log", "other-log", "orbitdb", "A",
			"04d171dd56208cc1397b1c8b2aee7b91cbdc3aa18a31cec07f9377d08b698658ee8868810747db562e590e3a74971feec0a706e0d6fed77057793c8c9f0a2847ba",
			"304402203618982de57d8d7ed893c7a4124f3cdab631c67852e1ccf7fb982d44a9238a1e02200148219cf4ee971ddf2ed9c6f07c1340660a6efdf8c3ffe49c3be0f732c55ebe",
			"!!!not base64!!!", "AAAA", "AAAAAAAAAAAAAAAAAAAAAAAAAAAAAAAA"}), Str)
	}
}

func hx(b []byte) Val { return Str(hex.EncodeToString(b)) }

// baseEntryVal is the structured value of a valid entry block.
func baseEntryVal(e iface.IPFSLogEntry, nlinks int, pbShape bool) Val {
	id := e.GetIdentity()
	next := List()
	refs := List()
	for i := 0; i < nlinks; i++ {
		next.L = append(next.L, Link(i))
		refs.L = append(refs.L, Link(i+3))
	}
	if next.L == nil {
		next.L = []Val{}
		refs.L = []Val{}
	}
	clock := Map(KV{"id", hx(e.GetClock().GetID())}, KV{"time", Int(uint64(e.GetClock().GetTime()))})
	if pbShape {
		return Map(KV{"hash", Null()}, KV{"id", Str(e.GetLogID())}, KV{"payload", Str(string(e.GetPayload()))}, KV{"next", next}, KV{"v", Int(0)}, KV{"clock", clock}, KV{"key", hx(e.GetKey())}, KV{"sig", hx(e.GetSig())})
	}
	return Map(
		KV{"v", Int(e.GetV())}, KV{"id", Str(e.GetLogID())}, KV{"key", hx(e.GetKey())}, KV{"sig", hx(e.GetSig())}, KV{"hash", Null()},
		KV{"next", next}, KV{"refs", refs}, KV{"clock", clock}, KV{"payload", Str(string(e.GetPayload()))},
		KV{"identity", Map(KV{"id", Str(id.ID)}, KV{"type", Str(id.Type)}, KV{"publicKey", hx(id.PublicKey)},
			KV{"signatures", Map(KV{"id", hx(id.Signatures.ID)}, KV{"publicKey", hx(id.Signatures.PublicKey)})})},
	)
}

func applyPatch(root *Val, pt patch) {
	if pt.Path == "+extra" {
		root.Set("unknown_field", pt.V)
		return
	}
	// split path
	segs := []string{}
	cur := ""
	for _, ch := range pt.Path {
		if ch == '.' {
			segs = append(segs, cur)
			cur = ""
		} else {
			cur += string(ch)
		}
	}
	segs = append(segs, cur)
	var walk func(v *Val, segs []string)
	walk = func(v *Val, segs []string) {
		s := segs[0]
		idx := -1
		if n := len(s); n > 3 && s[n-1] == ']' {
			idx = int(s[n-2] - '0')
			s = s[:n-3]
		}
		if len(segs) == 1 && idx < 0 {
			switch pt.Act {
			case "delete":
				v.Del(s)
			case "null":
				v.Set(s, Null())
			default:
				v.Set(s, pt.V)
			}
			return
		}
		for i := range v.M {
			if v.M[i].Key != s {
				continue
			}
			child := &v.M[i].V
			if idx >= 0 {
				if child.K != "list" {
					return
				}
				nv := pt.V
				if pt.Act != "replace" {
					nv = Null()
				}
				if idx < len(child.L) {
					child.L[idx] = nv
				} else {
					child.L = append(child.L, nv)
				}
				return
			}
			if child.K == "map" {
				walk(child, segs[1:])
			}
			return
		}
	}
	walk(root, segs)
}

type guard struct {
	tb   ev.TB
	what string
}

// safely runs f and converts a panic into a property failure naming the call.
func safely(tb ev.TB, what string, f func()) {
	defer func() {
		if r := recover(); r != nil {
			tb.Fatalf("%s panicked: %v\n%s", what, r, trimStack(debug.Stack()))
		}
	}()
	f()
}

// mustReturn runs f (under recover) on its own goroutine and fails if it has not returned after 15 s while
// the goroutine dump shows the fetcher parked - every block of the store answers immediately, so a load
// that is still running then is stuck, not slow.
func mustReturn(tb ev.TB, what string, f func()) {
	done := make(chan any, 1)
	go func() {
		defer func() { done <- recover() }()
		f()
	}()
	select {
	case r := <-done:
		if r != nil {
			tb.Fatalf("%s panicked: %v", what, r)
		}
	case <-time.After(15 * time.Second):
		var buf bytes.Buffer
		_ = pprof.Lookup("goroutine").WriteTo(&buf, 2)
		dump := buf.String()
		if strings.Contains(dump, "processQueue") && (strings.Contains(dump, "semaphore.(*Weighted).Acquire") || strings.Contains(dump, "sync.(*Cond).Wait")) {
			tb.Fatalf("%s did not return: the store answers every read immediately but the fetcher is parked\n%s", what, trimStack([]byte(dump)))
		}
		tb.Logf("inconclusive: %s still running after 15s without a parked fetcher", what)
	}
}

func trimStack(b []byte) string {
	if len(b) > 2500 {
		b = b[:2500]
	}
	return string(b)
}

var healthyOnce struct {
	store *fakeipfs.Store
	e     iface.IPFSLogEntry
}

var healthyLink iface.IPFSLogEntry

// healthyLinkEntry is a valid entry written with the link-key codec (it carries encrypted links).
func healthyLinkEntry(tb ev.TB) iface.IPFSLogEntry {
	if healthyLink == nil {
		st := fakeipfs.NewStore()
		e, err := entry.CreateEntryWithIO(context.Background(), st.API(), world.Identity(0), &entry.Entry{LogID: "verif-log", Payload: []byte("healthy-link"),
			Next: []cid.Cid{PoolCid(1), PoolCid(2)}, Refs: []cid.Cid{PoolCid(3)}, Clock: entry.NewLamportClock(world.Identity(0).PublicKey, 4)}, nil, world.IO(world.CodecLinkKey, 0))
		if err != nil {
			tb.Fatalf("harness: %v", err)
		}
		healthyLink = e
	}
	return healthyLink
}

func healthyEntry(tb ev.TB) (iface.IPFSLogEntry, *fakeipfs.Store) {
	if healthyOnce.e == nil {
		st := fakeipfs.NewStore()
		e, err := entry.CreateEntryWithIO(context.Background(), st.API(), world.Identity(0), &entry.Entry{LogID: "verif-log", Payload: []byte("healthy"), Clock: entry.NewLamportClock(world.Identity(0).PublicKey, 3)}, nil, world.IO(world.CodecDefault, 0))
		if err != nil {
			tb.Fatalf("harness: %v", err)
		}
		healthyOnce.e, healthyOnce.store = e, st
	}
	return healthyOnce.e, healthyOnce.store
}

// exercise calls everything the statement lists on a decoded entry.
func exercise(tb ev.TB, what string, e iface.IPFSLogEntry, io iface.IO) {
	healthy, _ := healthyEntry(tb)
	provider := world.Identity(0).Provider
	safely(tb, what+": accessors", func() {
		_ = e.GetPayload()
		_ = e.GetLogID()
		_ = e.GetNext()
		_ = e.GetRefs()
		_ = e.GetV()
		_ = e.GetKey()
		_ = e.GetSig()
		_ = e.GetHash()
		_ = e.GetAdditionalData()
		_ = e.Defined()
		_ = e.IsValid()
		if id := e.GetIdentity(); id != nil {
			_, _ = id.GetPublicKey()
			_ = id.Filtered()
		}
	})
	safely(tb, what+": clock accessors", func() {
		c := e.GetClock()
		_ = c.GetTime()
		_ = c.GetID()
		_ = c.Defined()
		_ = c.Compare(healthy.GetClock())
		_ = healthy.GetClock().Compare(c)
	})
	safely(tb, what+": Verify", func() { _ = e.Verify(provider, io) })
	safely(tb, what+": Verify (default codec)", func() { _ = e.Verify(provider, world.IO(world.CodecDefault, 0)) })
	safely(tb, what+": Verify (link-key codec)", func() { _ = e.Verify(provider, world.IO(world.CodecLinkKey, 0)) })
	safely(tb, what+": Equals/IsParent", func() {
		_ = e.Equals(healthy)
		_ = healthy.Equals(e)
		_ = e.IsParent(healthy)
		_ = healthy.IsParent(e)
	})
	safely(tb, what+": Copy", func() {
		c := e.Copy()
		_ = c.GetClock()
	})
	safely(tb, what+": ToHashable/Normalize/ToJsonableEntry", func() {
		_, _ = entry.ToHashable(e)
		_ = entry.Normalize(e, nil)
		_ = jsonable.ToJsonableEntry(e)
	})
	for name, f := range map[string]func(a, b iface.IPFSLogEntry) (int, error){"Compare": sorting.Compare, "LastWriteWins": sorting.LastWriteWins, "FirstWriteWins": sorting.FirstWriteWins, "SortByEntryHash": sorting.SortByEntryHash} {
		f := f
		safely(tb, what+": sorting."+name, func() {
			_, _ = f(e, healthy)
			_, _ = f(healthy, e)
			_, _ = f(e, e)
		})
	}
	safely(tb, what+": re-encoding", func() {
		st := fakeipfs.NewStore()
		_, _ = entry.ToMultihashWithIO(context.Background(), e, st.API(), nil, world.IO(world.CodecDefault, 0))
		_, _ = entry.ToMultihashWithIO(context.Background(), e, st.API(), nil, world.IO(world.CodecPB, 0))
	})
	safely(tb, what+": FindHeads/FindChildren/log over the entry", func() {
		m := entry.NewOrderedMapFromEntries([]iface.IPFSLogEntry{e, healthy})
		_ = entry.FindHeads(m)
		_ = entry.FindChildren(e, m.Slice())
		_, st := healthyEntry(tb)
		l, err := ipfslog.NewLog(st.API(), world.Identity(0), &ipfslog.LogOptions{ID: "verif-log", Entries: m})
		if err == nil {
			_ = l.Values()
			_ = l.Heads()
			_ = l.ToJSONLog()
			_ = l.ToSnapshot()
			_ = l.ToString(nil)
			dst, _ := ipfslog.NewLog(st.API(), world.Identity(1), &ipfslog.LogOptions{ID: "verif-log"})
			_, _ = dst.Join(l, -1)
		}
	})
}

func pbBlock(data []byte) (cid.Cid, []byte) {
	n := &merkledag.ProtoNode{}
	n.SetData(data)
	return n.Cid(), n.RawData()
}

// C12 — untrusted blocks and manifests cannot crash the process.
func runC12(tb ev.TB, p c12Prog) ev.Result {
	ctx := context.Background()
	healthy, _ := healthyEntry(tb)
	st := fakeipfs.NewStore()
	cborIO, linkIO, pbIO := world.IO(world.CodecDefault, 0), world.IO(world.CodecLinkKey, 0), world.IO(world.CodecPB, 0)
	if p.Debug {
		// private codec instances with the debug switch on; what they print is not of interest
		d1, d2 := world.DebugIO(world.CodecDefault, 0), world.DebugIO(world.CodecLinkKey, 0)
		cborIO, linkIO = d1, d2
		if null, err := os.OpenFile(os.DevNull, os.O_WRONLY, 0); err == nil {
			saved := os.Stdout
			os.Stdout = null
			defer func() { os.Stdout = saved; null.Close() }()
		}
	}
	provider := world.Identity(0).Provider

	// healthy chain in the store: c[0] <- c[1] <- ... ; the hostile block is referenced from c[pos]
	// (the chain is built after the hostile block's CID is known)
	var chain []iface.IPFSLogEntry
	res := func(i int) cid.Cid { return PoolCid(i) } // links inside hostile blocks: absent CIDs ...
	resolver := func(i int) cid.Cid {
		if i < len(chain) && i%2 == 0 { // ... or healthy entries created before the block
			return chain[i].GetHash()
		}
		return res(i)
	}
	// two healthy roots exist before the hostile block so that it can point at them
	mkEntry := func(payload string, next, refs []cid.Cid, t int) iface.IPFSLogEntry {
		e, err := entry.CreateEntryWithIO(ctx, st.API(), world.Identity(0), &entry.Entry{LogID: "verif-log", Payload: []byte(payload), Next: next, Refs: refs, Clock: entry.NewLamportClock(world.Identity(0).PublicKey, t)}, nil, cborIO)
		if err != nil {
			tb.Fatalf("harness: %v", err)
		}
		return e
	}
	chain = append(chain, mkEntry("h0", nil, nil, 1))
	chain = append(chain, mkEntry("h1", []cid.Cid{chain[0].GetHash()}, nil, 2))

	// ---- build the hostile block
	var val Val
	pbShape := p.Shape == "pb-entry" || p.Shape == "pb-manifest"
	switch p.Shape {
	case "entry":
		val = baseEntryVal(healthy, p.NLinks, false)
	case "entry-linkkey":
		hl := healthyLinkEntry(tb)
		val = baseEntryVal(hl, 0, false)
		val.Set("enc_links", Str(hl.GetAdditionalData()[iface.KeyEncryptedLinks]))
		val.Set("enc_links_nonce", Str(hl.GetAdditionalData()[iface.KeyEncryptedLinksNonce]))
	case "entry-linkkey-inner":
		hl := healthyLinkEntry(tb)
		val = baseEntryVal(hl, 0, false)
		inner := Map(KV{"next", List(Link(1), Link(2))}, KV{"refs", List(Link(3))})
		if p.InnerArb != nil {
			inner = *p.InnerArb
		}
		for _, pt := range p.Inner {
			if inner.K == "map" {
				applyPatch(&inner, pt)
			}
		}
		nonce, err := base64.StdEncoding.DecodeString(hl.GetAdditionalData()[iface.KeyEncryptedLinksNonce])
		if err != nil {
			tb.Fatalf("harness: %v", err)
		}
		sealed, err := world.LinkKey(0).SealWithNonce(EncodeCBOR(inner, p.Sorted, resolver), nonce)
		if err != nil {
			tb.Fatalf("harness: %v", err)
		}
		val.Set("enc_links", Str(base64.StdEncoding.EncodeToString(sealed)))
		val.Set("enc_links_nonce", Str(base64.StdEncoding.EncodeToString(nonce)))
	case "pb-entry":
		val = baseEntryVal(healthy, p.NLinks, true)
	case "manifest", "pb-manifest":
		val = Map(KV{"id", Str("verif-log")}, KV{"heads", List(Link(0), Link(2))})
	default:
		val = p.Arb
	}
	for _, pt := range p.Patches {
		if val.K == "map" {
			applyPatch(&val, pt)
		}
	}
	var hc cid.Cid
	var raw []byte
	if pbShape {
		if p.Shape == "pb-manifest" {
			// the legacy codec reads a manifest as JSON straight from the node's raw data
			raw = ToJSON(val, resolver)
			var err error
			hc, err = cid.V1Builder{Codec: cid.Raw, MhType: mh.SHA2_256}.Sum(raw)
			if err != nil {
				tb.Fatalf("harness: %v", err)
			}
		} else {
			hc, raw = pbBlock(ToJSON(val, resolver))
		}
	} else {
		raw = EncodeCBOR(val, p.Sorted, resolver)
		hc = cidOf(raw)
	}
	st.PutRaw(hc, raw)
	// further undecodable blocks that the healthy log names next to the hostile one
	var extras []cid.Cid
	for i := 0; i < p.Extra; i++ {
		junk := []byte{0xa1, 0x61, byte('a' + i), 0xff, 0xff}
		jc := cidOf(junk)
		st.PutRaw(jc, junk)
		extras = append(extras, jc)
	}

	classes := []string{"shape-" + p.Shape}
	node, gerr := st.API().Dag().Get(ctx, hc)
	decodedOK := map[string]bool{}
	if gerr != nil {
		classes = append(classes, "rejected-by-dag-layer")
	} else {
		type dec struct {
			name string
			io   iface.IO
		}
		for _, d := range []dec{{"default", cborIO}, {"linkkey", linkIO}, {"pb", pbIO}} {
			var e iface.IPFSLogEntry
			var err error
			safely(tb, "DecodeRawEntry("+d.name+")", func() { e, err = d.io.DecodeRawEntry(node, hc, provider) })
			if err == nil {
				if e == nil {
					tb.Fatalf("DecodeRawEntry(%s) returned nil entry and nil error", d.name)
				}
				decodedOK[d.name] = true
				exercise(tb, "entry decoded by "+d.name+" codec", e, d.io)
			}
			var jl *iface.JSONLog
			var jerr error
			safely(tb, "DecodeRawJSONLog("+d.name+")", func() { jl, jerr = d.io.DecodeRawJSONLog(node) })
			if jerr == nil {
				if jl == nil {
					tb.Fatalf("DecodeRawJSONLog(%s) returned nil, nil", d.name)
				}
				safely(tb, "manifest accessors", func() {
					for _, h := range jl.Heads {
						_ = h.String()
						_ = h.Defined()
					}
				})
			}
			// the high-level readers
			safely(tb, "FromMultihashWithIO("+d.name+")", func() { _, _ = entry.FromMultihashWithIO(ctx, st.API(), hc, provider, d.io) })
		}
	}
	if decodedOK["default"] {
		classes = append(classes, "decodes-as-entry")
	} else if gerr == nil {
		classes = append(classes, "decode-error")
	}

	// ---- placement: a healthy log that names the hostile block
	for i := 2; i < p.Chain; i++ {
		next := []cid.Cid{chain[i-1].GetHash()}
		var refs []cid.Cid
		if i == 2+p.Pos%(p.Chain-1) || (i == p.Chain-1 && p.Pos >= p.Chain-3) {
			if p.AsRef {
				refs = append(append(refs, extras...), hc)
			} else {
				next = append(append([]cid.Cid{hc}, extras...), next...) // hostile links listed before the healthy one
			}
		} else if i >= 3 {
			refs = append(refs, chain[i-3].GetHash())
		}
		chain = append(chain, mkEntry(fmt.Sprintf("h%d", i), next, refs, i+1))
	}
	if len(chain) == 2 { // chain of 2: reference from a third entry
		chain = append(chain, mkEntry("h2", []cid.Cid{chain[1].GetHash(), hc}, nil, 3))
	}
	referenced := false
	for _, e := range chain {
		for _, c := range append(append([]cid.Cid{}, e.GetNext()...), e.GetRefs()...) {
			if c.Equals(hc) {
				referenced = true
			}
		}
	}
	if !referenced {
		chain = append(chain, mkEntry("hx", []cid.Cid{chain[len(chain)-1].GetHash(), hc}, nil, len(chain)+1))
	}
	head := chain[len(chain)-1]
	healthySet := world.Set{}
	for _, e := range chain {
		healthySet.Add(e.GetHash().String())
	}
	var loaded *ipfslog.IPFSLog
	var lerr error
	lo := p.logOpts(cborIO, true)
	if p.Loader == 0 {
		mustReturn(tb, "NewFromEntryHash over a log containing the block", func() {
			fo, pch := p.fetchOpts(p.Conc)
			defer drainProgress(tb, pch)
			loaded, lerr = ipfslog.NewFromEntryHash(ctx, st.API(), world.Identity(0), head.GetHash(), lo, fo)
		})
	} else {
		mc, err := cborIO.Write(ctx, st.API(), &iface.JSONLog{ID: "verif-log", Heads: []cid.Cid{head.GetHash()}}, nil)
		if err != nil {
			tb.Fatalf("harness: %v", err)
		}
		mustReturn(tb, "NewFromMultihash over a log containing the block", func() {
			fo, pch := p.fetchOpts(p.Conc)
			defer drainProgress(tb, pch)
			loaded, lerr = ipfslog.NewFromMultihash(ctx, st.API(), world.Identity(0), mc, lo, fo)
		})
	}
	if lerr != nil {
		tb.Fatalf("loading a log whose history names a hostile block failed: %v", lerr)
	}
	got := world.SetOf(world.Hashes(loaded.GetEntries()))
	for h := range healthySet {
		if !got.Has(h) {
			tb.Fatalf("load skipped healthy entry %s (hostile block %s shape %s)", world.Short(h), world.Short(hc.String()), p.Shape)
		}
	}
	for h := range got {
		if healthySet.Has(h) {
			continue
		}
		if h != hc.String() {
			tb.Fatalf("load returned unknown entry %s", world.Short(h))
		}
		if !decodedOK["default"] {
			tb.Fatalf("load kept block %s although it does not decode as an entry", world.Short(h))
		}
	}
	safely(tb, "using the loaded log", func() {
		_ = loaded.Values()
		_ = loaded.Heads()
		_ = loaded.ToSnapshot()
		_ = loaded.ToJSONLog()
		dst, _ := ipfslog.NewLog(st.API(), world.Identity(1), &ipfslog.LogOptions{ID: "verif-log"})
		_, _ = dst.Join(loaded, -1)
		_, _ = loaded.Append(ctx, []byte("after"), &ipfslog.AppendOptions{PointerCount: 4})
	})
	// a hostile manifest as the thing being loaded
	if p.Shape == "manifest" || p.Shape == "arbitrary" || p.Shape == "entry" {
		safely(tb, "NewFromMultihash of the hostile block itself", func() {
			_, _ = ipfslog.NewFromMultihash(ctx, st.API(), world.Identity(0), hc, p.logOpts(cborIO, true), p.fo())
		})
		safely(tb, "NewFromEntryHash of the hostile block itself", func() {
			_, _ = ipfslog.NewFromEntryHash(ctx, st.API(), world.Identity(0), hc, p.logOpts(cborIO, true), p.fo())
		})
	}
	if p.Shape == "pb-manifest" || p.Shape == "pb-entry" {
		safely(tb, "legacy loaders of the hostile block itself", func() {
			_, _ = ipfslog.NewFromMultihash(ctx, st.API(), world.Identity(0), hc, p.logOpts(pbIO, false), p.fo())
			_, _ = ipfslog.NewFromEntryHash(ctx, st.API(), world.Identity(0), hc, p.logOpts(pbIO, false), p.fo())
		})
	}
	// the loaders of a reader that holds the link key decode the block on fetch goroutines too
	if p.Shape == "entry-linkkey" || p.Shape == "entry-linkkey-inner" {
		safely(tb, "NewFromEntryHash (link-key reader) over a log containing the block", func() {
			_, _ = ipfslog.NewFromEntryHash(ctx, st.API(), world.Identity(0), head.GetHash(), p.logOpts(linkIO, false), p.fo())
		})
	}
	nt := gerr == nil && (p.Shape != "arbitrary" || val.K == "map")
	return ev.Result{NonTrivial: nt, Classes: classes}
}

// fetchOpts builds the FetchOptions of a load: the concurrency plus the optional fields selected by p.Fetch. The
// progress channel is roomy enough for every load of a case; what arrived on it is inspected by drainProgress.
func (p c12Prog) fetchOpts(conc int) (*ipfslog.FetchOptions, chan iface.IPFSLogEntry) {
	fo := &ipfslog.FetchOptions{Concurrency: conc}
	var ch chan iface.IPFSLogEntry
	if p.Fetch == 1 || p.Fetch == 2 {
		ch = make(chan iface.IPFSLogEntry, 4096)
		fo.ProgressChan = ch
	}
	if p.Fetch >= 2 {
		fo.Timeout = 45 * time.Second
		fo.ShouldExclude = func(cid.Cid) bool { return false }
	}
	if p.Fetch == 2 {
		fo.Exclude = []iface.IPFSLogEntry{}
	}
	return fo, ch
}

func (p c12Prog) fo() *ipfslog.FetchOptions { f, _ := p.fetchOpts(0); return f }

// drainProgress: whatever a load reported on its progress channel is an entry one can use.
func drainProgress(tb ev.TB, ch chan iface.IPFSLogEntry) {
	if ch == nil {
		return
	}
	for {
		select {
		case e := <-ch:
			safely(tb, "entry reported on the progress channel", func() {
				if e == nil {
					tb.Fatalf("a load reported a nil entry on its progress channel")
				}
				_ = e.GetHash().String()
				_ = e.GetPayload()
				_ = e.GetClock().GetTime()
				_ = e.GetNext()
			})
		default:
			return
		}
	}
}

func cidOf(raw []byte) cid.Cid {
	c, err := cid.V1Builder{Codec: cid.DagCBOR, MhType: mh.SHA2_256}.Sum(raw)
	if err != nil {
		panic(err)
	}
	return c
}

var _ format.Node

func TestC12(t *testing.T) {
	c := ev.Get("C12")
	c.Rule = "structured generation: the valid CBOR map of an entry / manifest (or the legacy JSON-in-protobuf shape) with 1-3 patches, each deleting, nulling or replacing one field (top-level, nested clock/identity/signatures fields, list elements, extra fields) by a generated value of any kind (ints incl. 2^63/2^64-1, negatives, strings incl. non-hex and invalid UTF-8, bytes, bools, floats incl. NaN/Inf, undefined, lists, maps, tags, valid and malformed tag-42 links), canonical or written key order; or an arbitrary generated value; for link-key entries also hostile link lists sealed with the readers' own shared key (patched {next, refs} with malformed / empty tag-42 links, wrong kinds, or an arbitrary value) inside an otherwise honest block. The block is stored under its true CID; every codec's DecodeRawEntry/DecodeRawJSONLog is called on it and, on success, every accessor, clock method, Verify (3 codecs), Equals, IsParent, IsValid, Copy, ToHashable, Normalize, the four comparators, re-encoding, FindHeads/FindChildren and a log built over the entry (Values, Heads, ToString, Join) — each under recover(), a panic is the violation. Then a healthy signed chain naming the block in next or refs at a generated position is loaded by entry hash or manifest and must contain every healthy entry (plus the block only if it decodes); the hostile block itself is also given to the loaders; the loaders are called with and without a log id and with and without an explicit codec (LogOptions.ID, LogOptions.IO). Non-trivial = the block passes the DAG layer and is a map (decodes at the CBOR level but deviates from the schema); distinct = distinct program. Byte-level inputs: native fuzz target FuzzC12Decode (thorough tier, corpus replayed in quick). Hex-carrying fields (key, signature, clock id, identity keys) also get hex of short byte strings over the bytes keys and DER signatures start with, truncations of real ones and real ones with a byte replaced or appended; loads are given generated optional FetchOptions fields (progress channel, timeout, exclusion list / predicate) and what a progress channel reports must be usable entries."
	c.Assumptions = []string{"a block that decodes without error counts as an entry (possibly nonsensical) and may be part of the loaded log; only undecodable blocks must be skipped", "panics on goroutines the library starts cannot be recovered in-process: the direct decode checks run first on the test goroutine, the loaders second; the driver attributes a process crash to the last case written (write-ahead file)"}
	ev.Check(t, "C12", genC12, runC12)
}
