package hostile

import (
	"context"
	"encoding/base64"
	"testing"

	"github.com/ipfs/go-cid"
	mh "github.com/multiformats/go-multihash"

	ipfslog "berty.tech/go-ipfs-log"
	"berty.tech/go-ipfs-log/entry"
	"berty.tech/go-ipfs-log/iface"

	"verifharness/fakeipfs"
	"verifharness/world"
)

// fuzzTB adapts *testing.T to ev.TB.
type fuzzTB struct{ t *testing.T }

func (f fuzzTB) Fatalf(format string, args ...any) { f.t.Fatalf(format, args...) }
func (f fuzzTB) Logf(format string, args ...any)   { f.t.Logf(format, args...) }

// FuzzC12Decode: arbitrary bytes as a stored block (kind selects how the block
// is wrapped: dag-cbor, dag-pb with the bytes as data, raw, raw dag-pb bytes,
// or sealed with the shared link key as the link lists of a valid entry).
// The oracle is the same as the structured check: no panic in any decoder, every
// operation on a successfully decoded entry is safe, a load that meets the
// block returns.
func FuzzC12Decode(f *testing.F) {
	ctx := context.Background()
	// seeds: valid blocks of every shape + hostile constants
	st := fakeipfs.NewStore()
	for _, codec := range []world.Codec{world.CodecDefault, world.CodecLinkKey, world.CodecPB} {
		l, err := world.NewLog(st.API(), 0, "verif-log", world.OrderLWW, world.IO(codec, 0), nil)
		if err != nil {
			f.Fatal(err)
		}
		for i := 0; i < 3; i++ {
			if _, err := l.Append(ctx, []byte{byte('a' + i), 0xff}, &ipfslog.AppendOptions{PointerCount: 4}); err != nil {
				f.Fatal(err)
			}
		}
		if _, err := l.ToMultihash(ctx); err != nil {
			f.Fatal(err)
		}
	}
	for _, c := range st.Writes() {
		raw, _ := st.Raw(c)
		kind := uint8(0)
		if c.Type() == cid.DagProtobuf {
			kind = 3
		}
		f.Add(kind, raw)
	}
	healthy, _ := healthyEntry(fuzzTB{nil})
	_ = healthy
	for _, v := range []Val{
		Map(), Map(KV{"clock", Null()}), Map(KV{"identity", Map()}), Map(KV{"identity", Map(KV{"signatures", Null()})}),
		Map(KV{"next", List(Val{K: "badlink", B: []byte{1}})}), Map(KV{"heads", Null()}), List(), Null(), Int(1 << 63),
	} {
		f.Add(uint8(0), EncodeCBOR(v, true, PoolCid))
		f.Add(uint8(1), ToJSON(v, PoolCid))
		f.Add(uint8(2), ToJSON(v, PoolCid))
	}
	f.Add(uint8(0), []byte{0xa1, 0x65, 'c', 'l', 'o', 'c', 'k', 0xf6})
	f.Add(uint8(0), []byte{0xbf, 0xff})
	f.Add(uint8(0), []byte{0x9f, 0x9f, 0x9f, 0x9f, 0xff, 0xff, 0xff, 0xff})
	f.Add(uint8(1), []byte(`{"clock":null}`))
	f.Add(uint8(1), []byte(`{"hash":"x","clock":{"id":"zz","time":1e99}}`))
	f.Add(uint8(2), []byte(`{"ID":"a","Heads":[{"/":"x"}]}`))
	for _, v := range []Val{Map(KV{"next", List(Link(1), Link(2))}, KV{"refs", List(Link(3))}), Map(KV{"next", List(Val{K: "badlink", B: []byte{0, 1}})}), Map(KV{"next", Null()}), Map()} {
		f.Add(uint8(4), EncodeCBOR(v, true, PoolCid))
	}

	cborIO, linkIO, pbIO := world.IO(world.CodecDefault, 0), world.IO(world.CodecLinkKey, 0), world.IO(world.CodecPB, 0)
	provider := world.Identity(0).Provider

	f.Fuzz(func(t *testing.T, kind uint8, data []byte) {
		if len(data) > 4096 {
			return
		}
		tb := fuzzTB{t}
		store := fakeipfs.NewStore()
		var hc cid.Cid
		var raw []byte
		switch kind % 5 {
		case 0:
			raw = data
			hc = cidOf(raw)
		case 4:
			// the bytes are what a holder of the shared link key sealed as the link lists of an otherwise valid entry
			hl := healthyLinkEntry(tb)
			val := baseEntryVal(hl, 0, false)
			nonce, err := base64.StdEncoding.DecodeString(hl.GetAdditionalData()[iface.KeyEncryptedLinksNonce])
			if err != nil {
				t.Fatal(err)
			}
			sealed, err := world.LinkKey(0).SealWithNonce(data, nonce)
			if err != nil {
				t.Fatal(err)
			}
			val.Set("enc_links", Str(base64.StdEncoding.EncodeToString(sealed)))
			val.Set("enc_links_nonce", Str(base64.StdEncoding.EncodeToString(nonce)))
			raw = EncodeCBOR(val, true, PoolCid)
			hc = cidOf(raw)
		case 1:
			hc, raw = pbBlock(data)
		case 2:
			raw = data
			c, err := cid.V1Builder{Codec: cid.Raw, MhType: mh.SHA2_256}.Sum(raw)
			if err != nil {
				return
			}
			hc = c
		default:
			raw = data
			c, err := cid.V0Builder{}.Sum(raw)
			if err != nil {
				return
			}
			hc = c
		}
		store.PutRaw(hc, raw)
		node, err := store.API().Dag().Get(ctx, hc)
		if err != nil {
			return
		}
		for name, io := range map[string]iface.IO{"default": cborIO, "linkkey": linkIO, "pb": pbIO} {
			var e iface.IPFSLogEntry
			var derr error
			safely(tb, "DecodeRawEntry("+name+")", func() { e, derr = io.DecodeRawEntry(node, hc, provider) })
			if derr == nil {
				if e == nil {
					t.Fatalf("DecodeRawEntry(%s) returned nil, nil", name)
				}
				exercise(tb, "fuzzed entry decoded by "+name, e, io)
			}
			safely(tb, "DecodeRawJSONLog("+name+")", func() { _, _ = io.DecodeRawJSONLog(node) })
		}
		// loaders on the goroutine-spawning path, only after the direct checks passed
		safely(tb, "loaders", func() {
			for _, io := range []iface.IO{cborIO, pbIO} {
				_, _ = ipfslog.NewFromEntryHash(ctx, store.API(), world.Identity(0), hc, &ipfslog.LogOptions{ID: "verif-log", IO: io}, &ipfslog.FetchOptions{})
				_, _ = ipfslog.NewFromMultihash(ctx, store.API(), world.Identity(0), hc, &ipfslog.LogOptions{ID: "verif-log", IO: io}, &ipfslog.FetchOptions{})
				_, _ = ipfslog.NewFromEntryHash(ctx, store.API(), world.Identity(0), hc, &ipfslog.LogOptions{IO: io}, &ipfslog.FetchOptions{})
				_, _ = ipfslog.NewFromMultihash(ctx, store.API(), world.Identity(0), hc, &ipfslog.LogOptions{IO: io}, &ipfslog.FetchOptions{})
			}
			_, _ = entry.FromMultihash(ctx, store.API(), hc, provider)
		})
	})
}
