package codec

import (
	"bytes"
	"context"
	"encoding/hex"
	"testing"

	"github.com/ipfs/go-cid"

	"berty.tech/go-ipfs-log/entry"
	idp "berty.tech/go-ipfs-log/identityprovider"
	"berty.tech/go-ipfs-log/iface"

	"verifharness/ev"
	"verifharness/fakeipfs"
	"verifharness/world"
)

func mustCid(t *testing.T, s string) cid.Cid {
	c, err := cid.Decode(s)
	if err != nil {
		t.Fatalf("bad cid %s: %v", s, err)
	}
	return c
}

func unhex(s string) []byte {
	b, err := hex.DecodeString(s)
	if err != nil {
		panic(err)
	}
	return b
}

const v0Key = "0411a0d38181c9374eca3e480ecada96b1a4db9375c5e08c3991557759d22f6f2f902d0dc5364a948035002504d825308b0c257b7cbb35229c2076532531f8f4ef"
const v0Sig = "3044022062f4cfc8b8f3cc01283b25eab3eeb295614bb0faa8bd20f026c1487ae663121102207ce415bd7423b66d695338c17122e937259f77d1e86494d3146436f0959fccc6"
const v1Key = "048bef2231e64d5c7147bd4b8afb84abd4126ee8d8335e4b069ac0a65c7be711cea5c1b8d47bc20ebaecdca588600ddf2894675e78b2ef17cf49e7bbaf98080361"

func v0Fixture(t *testing.T, name string) *entry.Entry {
	e := &entry.Entry{LogID: "A", V: 0, Clock: entry.NewLamportClock(unhex(v0Key), 0), Sig: unhex(v0Sig), Key: unhex(v0Key), Next: []cid.Cid{}}
	switch name {
	case "hello":
		e.Hash, e.Payload = mustCid(t, "Qmc2DEiLirMH73kHpuFPbt3V65sBrnDWkJYSjUQHXXvghT"), []byte("hello")
	case "helloWorld":
		e.Hash, e.Payload = mustCid(t, "QmUKMoRrmsYAzQg1nQiD7Fzgpo24zXky7jVJNcZGiSAdhc"), []byte("hello world")
	case "helloAgain":
		e.Hash, e.Payload = mustCid(t, "QmZ8va2fSjRufV1sD6x5mwi6E5GrSjXHx7RiKFVBzkiUNZ"), []byte("hello again")
		e.Next = []cid.Cid{mustCid(t, "QmUKMoRrmsYAzQg1nQiD7Fzgpo24zXky7jVJNcZGiSAdhc")}
	}
	return e
}

func v1Identity() *idp.Identity {
	return &idp.Identity{
		ID:        "03e0480538c2a39951d054e17ff31fde487cb1031d0044a037b53ad2e028a3e77c",
		PublicKey: unhex(v1Key),
		Signatures: &idp.IdentitySignature{
			ID:        unhex("3045022100f5f6f10571d14347aaf34e526ce3419fd64d75ffa7aa73692cbb6aeb6fbc147102203a3e3fa41fa8fcbb9fc7c148af5b640e2f704b20b3a4e0b93fc3a6d44dffb41e"),
			PublicKey: unhex("3044022020982b8492be0c184dc29de0a3a3bd86a86ba997756b0bf41ddabd24b47c5acf02203745fda39d7df650a5a478e52bbe879f0cb45c074025a93471414a56077640a4"),
		},
		Type: "orbitdb",
	}
}

func v1Fixtures(t *testing.T) []*entry.Entry {
	mk := func(payload string, next []cid.Cid, sig string, hash string, time int) *entry.Entry {
		return &entry.Entry{Payload: []byte(payload), LogID: "A", Next: next, V: 1, Key: unhex(v1Key), Sig: unhex(sig), Identity: v1Identity(), Hash: mustCid(t, hash), Clock: entry.NewLamportClock(unhex(v1Key), time)}
	}
	return []*entry.Entry{
		mk("one", []cid.Cid{}, "3045022100f72546c99cf30eda1d394d91209bdb4569408a792caf9dc7c6415fef37a3118d0220645c4a6d218f8fc478af5bab175aaa99e1505d70c2a00997aacafa8de697944e", "zdpuAsJDrLKrAiU8M518eu6mgv9HzS3e1pfH5XC7LUsFgsK5c", 1),
		mk("two", []cid.Cid{mustCid(t, "zdpuAsJDrLKrAiU8M518eu6mgv9HzS3e1pfH5XC7LUsFgsK5c")}, "3045022100b85c85c59e6d0952f95e3839e48b43b4073ef26f6f4696d785ce64053cd5869a0220644a4a7a15ddcd2b152611b08bf23b9df7823846719f2d0e4b0aff64190ed146", "zdpuAxgKyiM9qkP9yPKCCqrHer9kCqYyr7KbhucsPwwfh6JB3", 2),
		mk("three", []cid.Cid{mustCid(t, "zdpuAxgKyiM9qkP9yPKCCqrHer9kCqYyr7KbhucsPwwfh6JB3")}, "304402206f6a1582bc2c18b63eeb5b1e2280f2700c5d467d60185738702f90f4e655214602202ce0fb6de31b42a24768f274ecb4c1e2ed8529e073cfb361fc1ef5d1e2d75a31", "zdpuAq7PAbQ7iavSdkNUUUrRUba5wSpRDJRsiC8RcvkXdgqYJ", 3),
	}
}

// TestC08Vectors re-states the interoperability vectors pinned by the
// repository's own tests and requires them to stay bit-exact.
func TestC08Vectors(t *testing.T) {
	if ev.Replaying() {
		t.Skip("vectors are not part of a replayed program")
	}
	ctx := context.Background()
	st := fakeipfs.NewStore()
	api := st.API()
	cb := world.IO(world.CodecDefault, 0)
	pbio := world.IO(world.CodecPB, 0)
	userA := world.FixtureIdentity("userA")
	n := 0
	expect := func(what string, got cid.Cid, want string) {
		t.Helper()
		n++
		if !got.Equals(mustCid(t, want)) {
			t.Fatalf("pinned vector %q: got %s, want %s", what, got, want)
		}
	}
	create := func(e *entry.Entry) iface.IPFSLogEntry {
		t.Helper()
		r, err := entry.CreateEntry(ctx, api, userA, e, nil)
		if err != nil {
			t.Fatalf("CreateEntry: %v", err)
		}
		return r
	}
	// v2 entries created with the userA key
	e1 := create(&entry.Entry{Payload: []byte("hello"), LogID: "A"})
	expect("v2 hello", e1.GetHash(), "zdpuAsPdzSyeux5mFsFV1y3WeHAShGNi4xo22cYBYWUdPtxVB")
	h, err := e1.(*entry.Entry).ToMultihash(ctx, api, nil)
	if err != nil {
		t.Fatal(err)
	}
	expect("v2 hello ToMultihash", h, "zdpuAsPdzSyeux5mFsFV1y3WeHAShGNi4xo22cYBYWUdPtxVB")
	e2 := create(&entry.Entry{Payload: []byte("hello world"), LogID: "A"})
	expect("v2 hello world", e2.GetHash(), "zdpuAyvJU3TS7LUdfRxwAnJorkz6NfpAWHGypsQEXLZxcCCRC")
	cl := entry.NewLamportClock(userA.PublicKey, 1)
	e3 := create(&entry.Entry{Payload: []byte("hello again"), LogID: "A", Next: []cid.Cid{e2.GetHash()}, Clock: cl})
	expect("v2 hello again next+clock", e3.GetHash(), "zdpuAqsN9Py4EWSfrGYZS8tuokWuiTd9zhS8dhr9XpSGQajP2")
	e4 := create(&entry.Entry{Payload: []byte("hello again"), LogID: "A", Next: []cid.Cid{e2.GetHash()}})
	expect("v2 hello again next", e4.GetHash(), "zdpuAnRGWKPkMHqumqdkRJtzbyW6qAGEiBRv61Zj3Ts4j9tQF")
	d4, err := entry.FromMultihash(ctx, api, e4.GetHash(), userA.Provider)
	if err != nil {
		t.Fatal(err)
	}
	if d4.GetLogID() != "A" || string(d4.GetPayload()) != "hello again" || len(d4.GetNext()) != 1 || !d4.GetHash().Equals(e4.GetHash()) {
		t.Fatalf("decoding pinned v2 entry gave %+v", d4)
	}
	// v1 fixtures
	for i, f := range v1Fixtures(t) {
		c, err := f.ToMultihash(ctx, api, nil)
		if err != nil {
			t.Fatal(err)
		}
		expect("v1 fixture ToMultihash", c, f.Hash.String())
		c2, err := cb.Write(ctx, api, f, nil)
		if err != nil {
			t.Fatal(err)
		}
		expect("v1 fixture io.Write", c2, f.Hash.String())
		d, err := entry.FromMultihash(ctx, api, c2, userA.Provider)
		if err != nil {
			t.Fatalf("decoding v1 fixture %d: %v", i, err)
		}
		if d.GetV() != 1 || d.GetLogID() != "A" || !bytes.Equal(d.GetPayload(), f.Payload) || !sameCids(d.GetNext(), f.Next) ||
			!bytes.Equal(d.GetKey(), f.Key) || !bytes.Equal(d.GetSig(), f.Sig) || d.GetClock().GetTime() != f.Clock.Time || !bytes.Equal(d.GetClock().GetID(), f.Clock.ID) ||
			d.GetIdentity() == nil || d.GetIdentity().ID != f.Identity.ID || !bytes.Equal(d.GetIdentity().PublicKey, f.Identity.PublicKey) ||
			!bytes.Equal(d.GetIdentity().Signatures.ID, f.Identity.Signatures.ID) || !bytes.Equal(d.GetIdentity().Signatures.PublicKey, f.Identity.Signatures.PublicKey) {
			t.Fatalf("decoding v1 fixture %d does not give the fixture fields: %+v", i, d)
		}
		n++
	}
	// v0 (legacy protobuf) fixtures
	hv0, err := entry.ToMultihashWithIO(ctx, v0Fixture(t, "hello"), api, nil, pbio)
	if err != nil {
		t.Fatal(err)
	}
	expect("v0 hello ToMultihashWithIO", hv0, "Qmc2DEiLirMH73kHpuFPbt3V65sBrnDWkJYSjUQHXXvghT")
	hw, err := pbio.Write(ctx, api, v0Fixture(t, "helloWorld"), nil)
	if err != nil {
		t.Fatal(err)
	}
	expect("v0 helloWorld io.Write (with hash field)", hw, "QmenUDpFksTa3Q9KmUJYjebqvHJcTF2sGQaCH7orY7bXKC")
	for _, name := range []string{"hello", "helloWorld", "helloAgain"} {
		f := v0Fixture(t, name)
		c, err := pbio.Write(ctx, api, entry.Normalize(f, nil), nil)
		if err != nil {
			t.Fatal(err)
		}
		expect("v0 "+name+" normalized", c, f.Hash.String())
		d, err := entry.FromMultihashWithIO(ctx, api, c, userA.Provider, pbio)
		if err != nil {
			t.Fatalf("decoding v0 block %s: %v", name, err)
		}
		if d.GetV() != 0 || d.GetLogID() != "A" || !bytes.Equal(d.GetPayload(), f.Payload) || !sameCids(d.GetNext(), f.Next) ||
			!bytes.Equal(d.GetKey(), f.Key) || !bytes.Equal(d.GetSig(), f.Sig) || d.GetClock().GetTime() != 0 || !bytes.Equal(d.GetClock().GetID(), f.Clock.ID) || !d.GetHash().Equals(c) {
			t.Fatalf("decoding v0 block %s does not give the fixture fields: %+v", name, d)
		}
		n++
	}
	ev.Get("C08").SetExtra("pinned_vectors_checked", n)
}
