package codec

import (
	"bytes"
	"context"
	"encoding/base32"
	"encoding/base64"
	"encoding/hex"
	"fmt"
	"regexp"
	"strings"
	"testing"
	"unicode/utf8"

	"github.com/ipfs/go-cid"
	cbornode "github.com/ipfs/go-ipld-cbor"
	"github.com/multiformats/go-multibase"
	mh "github.com/multiformats/go-multihash"
	"pgregory.net/rapid"

	ipfslog "berty.tech/go-ipfs-log"
	"berty.tech/go-ipfs-log/entry"
	"berty.tech/go-ipfs-log/iface"
	"berty.tech/go-ipfs-log/io/cbor"

	"verifharness/ev"
	"verifharness/fakeipfs"
	"verifharness/world"
)

type c18Prog struct {
	Entry    c08Prog `json:"entry"`
	WKey     int     `json:"wkey"`               // writer's link key
	RKey     int     `json:"rkey"`               // other reader's link key (made different from wkey)
	Appends  []int   `json:"appends"`            // pointer counts of a small log built with the writer key
	Reopen   int     `json:"reopen"`             // loader used to reopen the log before appending again (index, mod 4)
	KeyBuf   int     `json:"keyBuf,omitempty"`   // how the writer's codec got its key: 0 as usual; 1 from a buffer the caller wipes afterwards; 2 from a buffer into which the caller then loads the other reader's key
	KeyKind  int     `json:"keyKind,omitempty"`  // 0: the library's secretbox keys; 1: shared keys of another make (AES-GCM, 12-byte nonces) behind the same enc.SharedKey interface
	Wrapped  bool    `json:"wrapped,omitempty"`  // the writer's codec is used through a struct that embeds it (a delegating wrapper)
	OneFetch bool    `json:"oneFetch,omitempty"` // the caller keeps ONE FetchOptions value for every load it makes, whichever reader's codec the load is for
	OneOpts  bool    `json:"oneOpts,omitempty"`  // the caller configures all three codecs (writer, other key, no key) through ONE cbor.Options value, changing its key field between the ApplyOptions calls
	Derive   bool    `json:"derive,omitempty"`   // the readers' codecs (no key / other key) are derived from the writer's codec object with ApplyOptions instead of being built from scratch
	Opts     int     `json:"opts"`               // CreateEntryOptions of a second write of the entry: bit 0 Pin, bit 1 PreSigned
}

func genC18(t *rapid.T) c18Prog {
	e := genC08(t)
	e.Codec = 1
	return c18Prog{
		Entry:    e,
		WKey:     rapid.IntRange(0, 5).Draw(t, "wkey"),
		RKey:     rapid.IntRange(0, 5).Draw(t, "rkey"),
		Appends:  rapid.SliceOfN(rapid.SampledFrom([]int{0, 1, 2, 4, 8, 16}), 1, 8).Draw(t, "appends"),
		Reopen:   rapid.IntRange(0, 3).Draw(t, "reopen"),
		Opts:     rapid.IntRange(0, 3).Draw(t, "opts"),
		KeyBuf:   rapid.SampledFrom([]int{0, 0, 1, 2}).Draw(t, "keyBuf"),
		Derive:   rapid.IntRange(0, 2).Draw(t, "deriveReaders") == 0,
		Wrapped:  rapid.IntRange(0, 3).Draw(t, "wrappedCodec") == 0,
		KeyKind:  rapid.SampledFrom([]int{0, 0, 0, 1}).Draw(t, "keyKind"),
		OneOpts:  rapid.IntRange(0, 3).Draw(t, "oneOptionsValue") == 0,
		OneFetch: rapid.IntRange(0, 2).Draw(t, "oneFetchOptionsValue") == 0,
	}
}

// textual / binary forms under which a CID could leak into a block
func cidForms(c cid.Cid) [][]byte {
	var out [][]byte
	b := c.Bytes()
	out = append(out, b, c.Hash())
	if dm, err := mh.Decode(c.Hash()); err == nil {
		out = append(out, dm.Digest)
		out = append(out, []byte(hex.EncodeToString(dm.Digest)))
	}
	out = append(out, []byte(c.String()))
	for _, enc := range []multibase.Encoding{multibase.Base32, multibase.Base58BTC, multibase.Base64, multibase.Base64url, multibase.Base16, multibase.Base36} {
		if s, err := multibase.Encode(enc, b); err == nil {
			out = append(out, []byte(s), []byte(s[1:]))
		}
	}
	out = append(out, []byte(base64.StdEncoding.EncodeToString(b)), []byte(base64.RawStdEncoding.EncodeToString(b)),
		[]byte(strings.ToLower(base32.StdEncoding.WithPadding(base32.NoPadding).EncodeToString(b))), []byte(hex.EncodeToString(b)))
	if c.Version() == 0 {
		out = append(out, []byte(c.String()))
	}
	return out
}

func checkOpaque(tb ev.TB, raw []byte, links []cid.Cid) {
	for _, l := range links {
		for _, f := range cidForms(l) {
			if len(f) >= 8 && bytes.Contains(raw, f) {
				tb.Fatalf("stored block reveals link %s (form %q)", l, f)
			}
		}
	}
	checkNoFragments(tb, raw, links)
	n, err := cbornode.Decode(raw, mh.SHA2_256, -1)
	if err != nil {
		tb.Fatalf("stored block is not valid dag-cbor: %v", err)
	}
	if len(n.Links()) != 0 {
		tb.Fatalf("stored block of a link-encrypted entry has %d traversable links", len(n.Links()))
	}
}

var (
	b64StdRun = regexp.MustCompile(`[A-Za-z0-9+/]{16,}={0,2}`)
	b64URLRun = regexp.MustCompile(`[A-Za-z0-9_-]{16,}={0,2}`)
	hexRun    = regexp.MustCompile(`[0-9a-fA-F]{20,}`)
)

// views returns the block itself and whatever its text fields say once their transport encoding (base64 of any
// flavour, hex) is taken off: field values are found as runs of the encoding's alphabet; a run may carry a few bytes
// of the surrounding CBOR framing at either end, so every small trim is tried.
func views(raw []byte) [][]byte {
	out := [][]byte{raw}
	// base64 is decoded in groups of four characters from the start: framing bytes in front shift the grouping (all
	// four shifts are tried), framing bytes behind only add garbage at the end
	b64 := func(run []byte, enc *base64.Encoding) {
		run = bytes.TrimRight(run, "=")
		for lead := 0; lead < 4 && lead+16 <= len(run); lead++ {
			s := run[lead:]
			if len(s)%4 == 1 {
				s = s[:len(s)-1]
			}
			if v, err := enc.DecodeString(string(s)); err == nil && len(v) >= 10 {
				out = append(out, v)
			}
		}
	}
	for _, run := range b64StdRun.FindAll(raw, -1) {
		b64(run, base64.RawStdEncoding)
	}
	for _, run := range b64URLRun.FindAll(raw, -1) {
		if bytes.ContainsAny(run, "_-") { // otherwise the run is in the standard alphabet as well
			b64(run, base64.RawURLEncoding)
		}
	}
	for _, run := range hexRun.FindAll(raw, -1) {
		for lead := 0; lead < 2; lead++ {
			s := run[lead:]
			if v, err := hex.DecodeString(string(s[:len(s)&^1])); err == nil && len(v) >= 10 {
				out = append(out, v)
			}
		}
	}
	return out
}

// checkNoFragments: not even a recognisable part of a link's identifier may be readable from the block - 16
// characters of any of its textual forms, 10 bytes of its binary forms - neither in the bytes of the block nor in
// what its text fields carry under base64 / hex.
func checkNoFragments(tb ev.TB, raw []byte, links []cid.Cid) {
	const textW, binW = 16, 10
	frag := map[string]cid.Cid{}
	add := func(f []byte, w int, l cid.Cid) {
		for i := 0; i+w <= len(f); i++ {
			frag[string(f[i:i+w])] = l
		}
	}
	for _, l := range links {
		for _, f := range cidForms(l) {
			if utf8.Valid(f) && !bytes.ContainsFunc(f, func(r rune) bool { return r < 0x20 || r > 0x7e }) {
				add(f, textW, l)
			} else {
				add(f, binW, l)
			}
		}
	}
	if len(frag) == 0 {
		return
	}
	for vi, v := range views(raw) {
		for _, w := range []int{textW, binW} {
			for i := 0; i+w <= len(v); i++ {
				if l, ok := frag[string(v[i:i+w])]; ok {
					where := "the bytes of the block"
					if vi > 0 {
						where = "a text field of the block, once its base64/hex encoding is taken off,"
					}
					tb.Fatalf("%s contain(s) a fragment of link %s: %q", where, l, v[i:i+w])
				}
			}
		}
	}
}

// delegatingIO is a codec that hands everything to the keyed codec it embeds.
type delegatingIO struct{ *cbor.IOCbor }

// C18 — with a link key, stored blocks never reveal the log's structure.
func runC18(tb ev.TB, p c18Prog) ev.Result {
	ctx := context.Background()
	sharedFetch := &iface.FetchOptions{}
	fo := func() *iface.FetchOptions {
		if p.OneFetch {
			return sharedFetch // what a load leaves in it is the next load's input
		}
		return &iface.FetchOptions{}
	}
	sharedFetchL := &ipfslog.FetchOptions{}
	fol := func() *ipfslog.FetchOptions { // (the manifest and entry-hash loaders have an options type of their own)
		if p.OneFetch {
			return sharedFetchL
		}
		return &ipfslog.FetchOptions{}
	}
	wk := p.WKey
	rk := p.RKey
	if rk == wk {
		rk = (wk + 1) % 6
	}
	wio, otherio, noio := world.IO(world.CodecLinkKey, wk), world.IO(world.CodecLinkKey, rk), world.IO(world.CodecDefault, 0)
	gcm := p.KeyKind == 1
	if gcm {
		// shared keys of another make than the library's own (AES-GCM, 12-byte nonces): the codec works with any enc.SharedKey
		wio, otherio = world.IOWithKey(world.GCMKey(wk)), world.IOWithKey(world.GCMKey(rk))
	}
	switch {
	case gcm:
	case p.KeyBuf == 1:
		buf := world.LinkKeyBytes(wk)
		wio = world.IOFromBuffer(buf)
		for i := range buf {
			buf[i] = 0 // key hygiene: the caller does not keep secrets around
		}
	case p.KeyBuf == 2:
		buf := world.LinkKeyBytes(wk)
		wio = world.IOFromBuffer(buf)
		copy(buf, world.LinkKeyBytes(rk)) // the same buffer serves to load the next key
		otherio = world.IOFromBuffer(buf)
	}
	if p.OneOpts && !gcm && p.KeyBuf == 0 {
		// one options value serves to configure all three codecs; what the caller writes into it after a codec was
		// derived is no business of that codec
		if base, err := cbor.IO(&entry.Entry{}, &entry.LamportClock{}); err == nil {
			opts := &cbor.Options{LinkKey: world.LinkKey(wk)}
			wio = base.ApplyOptions(opts)
			opts.LinkKey = world.LinkKey(rk)
			otherio = base.ApplyOptions(opts)
			opts.LinkKey = nil
			noio = base.ApplyOptions(opts)
		}
	}
	if p.Wrapped {
		// an application wraps the codec it was given (to count writes, say): the wrapper promotes every method of the
		// keyed codec, the pre-sign step included
		if base, ok := wio.(*cbor.IOCbor); ok {
			wio = delegatingIO{base}
		}
	}
	if p.Derive {
		// an application that holds the group's codec derives the others from it: "the same codec without a key",
		// "the same codec with that other key"
		base, ok := wio.(*cbor.IOCbor)
		if d, isWrapped := wio.(delegatingIO); isWrapped {
			base, ok = d.IOCbor, true
		}
		if ok {
			noio = base.ApplyOptions(&cbor.Options{})
			if gcm {
				otherio = base.ApplyOptions(&cbor.Options{LinkKey: world.GCMKey(rk)})
			} else {
				otherio = base.ApplyOptions(&cbor.Options{LinkKey: world.LinkKey(rk)})
			}
		}
	}
	provider := world.Identity(p.Entry.Writer).Provider
	st := fakeipfs.NewStore()
	e := create(tb, st, p.Entry, wio)
	raw, _ := st.Raw(e.GetHash())
	all := append(append([]cid.Cid{}, e.GetNext()...), e.GetRefs()...)
	checkOpaque(tb, raw, all)
	// same key (a second IO instance built from the same key bytes)
	same := world.IOFresh(world.CodecLinkKey, wk)
	if gcm {
		same = world.IOWithKey(world.GCMKey(wk))
	}
	d, err := entry.FromMultihashWithIO(ctx, st.API(), e.GetHash(), provider, same)
	if err != nil {
		tb.Fatalf("same-key reader cannot decode: %v", err)
	}
	if !sameCids(d.GetNext(), e.GetNext()) || !sameCids(d.GetRefs(), e.GetRefs()) {
		tb.Fatalf("same-key reader recovered next %v refs %v, written next %v refs %v", d.GetNext(), d.GetRefs(), e.GetNext(), e.GetRefs())
	}
	if err := d.Verify(provider, same); err != nil {
		tb.Fatalf("same-key reader cannot verify the decoded entry: %v", err)
	}
	if err := e.Verify(provider, wio); err != nil {
		tb.Fatalf("writer cannot verify its own entry: %v", err)
	}
	// the same entry written with other create options (pinned, hashed before signing): whatever block that
	// write stores is opaque too, and a same-key reader recovers the same lists from it
	if p.Opts != 0 {
		os := fakeipfs.NewStore()
		opts := &iface.CreateEntryOptions{Pin: p.Opts&1 != 0, PreSigned: p.Opts&2 != 0}
		eo := createWith(tb, os, p.Entry, wio, opts)
		for _, c := range os.Writes() {
			braw, _ := os.Raw(c)
			checkOpaque(tb, braw, all)
		}
		if do, err := entry.FromMultihashWithIO(ctx, os.API(), eo.GetHash(), provider, same); err != nil {
			tb.Fatalf("same-key reader cannot decode the entry written with %+v: %v", *opts, err)
		} else if !sameCids(do.GetNext(), e.GetNext()) || !sameCids(do.GetRefs(), e.GetRefs()) {
			tb.Fatalf("same-key reader recovered next %v refs %v from the entry written with %+v, written next %v refs %v", do.GetNext(), do.GetRefs(), *opts, e.GetNext(), e.GetRefs())
		} else if !opts.PreSigned {
			if err := do.Verify(provider, same); err != nil {
				tb.Fatalf("same-key reader cannot verify the entry written with %+v: %v", *opts, err)
			}
		}
		if dn, err := entry.FromMultihashWithIO(ctx, os.API(), eo.GetHash(), provider, noio); err == nil && len(dn.GetNext())+len(dn.GetRefs()) != 0 {
			tb.Fatalf("reader without a key obtained links from the entry written with %+v", *opts)
		}
	}
	// a copy of the entry written again (an application re-publishing or pinning what it holds): that block is
	// opaque as well
	{
		cs := fakeipfs.NewStore()
		cc, err := entry.ToMultihashWithIO(ctx, e.Copy(), cs.API(), &iface.CreateEntryOptions{Pin: p.Opts&1 != 0}, wio)
		if err != nil {
			tb.Fatalf("writing a copy of the entry failed: %v", err)
		}
		for _, c := range cs.Writes() {
			braw, _ := cs.Raw(c)
			checkOpaque(tb, braw, all)
		}
		if !cc.Equals(e.GetHash()) {
			tb.Fatalf("a copy of the entry is stored under %s, the entry under %s", cc, e.GetHash())
		}
	}
	// the sealed entry the writer holds, written again through a codec that has NO key or ANOTHER key, or through the
	// entry's own ToMultihash (which uses the library's default codec): an application that re-publishes what Append
	// handed it need not go through the keyed codec. Whatever such a write stores must be opaque as well.
	for ri, rio := range []iface.IO{nil, noio, otherio} {
		for _, obj := range []iface.IPFSLogEntry{e, e.Copy()} {
			rs := fakeipfs.NewStore()
			var werr error
			if rio == nil {
				if ee, ok := obj.(*entry.Entry); ok {
					_, werr = ee.ToMultihash(ctx, rs.API(), &iface.CreateEntryOptions{Pin: p.Opts&1 != 0})
				}
			} else {
				_, werr = entry.ToMultihashWithIO(ctx, obj, rs.API(), &iface.CreateEntryOptions{Pin: p.Opts&1 != 0}, rio)
			}
			_ = werr // a refusal to write is fine: nothing is disclosed
			for _, c := range rs.Writes() {
				braw, _ := rs.Raw(c)
				func() {
					defer func() {
						if r := recover(); r != nil {
							tb.Fatalf("sealed entry written again through codec #%d (0: Entry.ToMultihash, 1: no key, 2: other key): %v", ri, r)
						}
					}()
					checkOpaque(fatalToPanic{tb}, braw, all)
				}()
			}
		}
	}
	// no key
	dn, err := entry.FromMultihashWithIO(ctx, st.API(), e.GetHash(), provider, noio)
	if err == nil && len(dn.GetNext())+len(dn.GetRefs()) != 0 { // failing to decode also yields no links
		tb.Fatalf("reader without a key obtained links: %v %v", dn.GetNext(), dn.GetRefs())
	}
	// different key
	do, err := entry.FromMultihashWithIO(ctx, st.API(), e.GetHash(), provider, otherio)
	if err == nil && len(do.GetNext())+len(do.GetRefs()) != 0 {
		tb.Fatalf("reader with a different key obtained links: %v %v", do.GetNext(), do.GetRefs())
	}
	if len(all) > 0 && err == nil {
		// with links present, a wrong key must not silently produce a verifying entry with the real links
		if verr := do.Verify(provider, otherio); verr == nil && (len(do.GetNext())+len(do.GetRefs()) > 0) {
			tb.Fatalf("different-key reader verified an entry with links")
		}
	}

	// ---- log level: writer log with the key; same-key replica merges; loaders
	ls := fakeipfs.NewStore()
	wl, err := world.NewLog(ls.API(), p.Entry.Writer, "L", world.OrderLWW, wio, nil)
	if err != nil {
		tb.Fatalf("harness: %v", err)
	}
	var last cid.Cid
	var written []cid.Cid
	for i, pc := range p.Appends {
		ae, err := wl.Append(ctx, []byte{byte('a' + i)}, &ipfslog.AppendOptions{PointerCount: pc})
		if err != nil {
			tb.Fatalf("append with link key failed: %v", err)
		}
		last = ae.GetHash()
		written = append(written, last)
		r, _ := ls.Raw(last)
		checkOpaque(tb, r, append(append([]cid.Cid{}, ae.GetNext()...), ae.GetRefs()...))
		// no other block of the log may be named in this block either
		checkOpaque(tb, r, written[:len(written)-1])
	}
	rl, err := world.NewLog(ls.API(), (p.Entry.Writer+1)%6, "L", world.OrderLWW, same, nil)
	if err != nil {
		tb.Fatalf("harness: %v", err)
	}
	if _, err := rl.Join(wl, -1); err != nil {
		tb.Fatalf("same-key replica cannot merge the writer's log: %v", err)
	}
	if rl.Len() != len(p.Appends) {
		tb.Fatalf("same-key replica merged %d of %d entries", rl.Len(), len(p.Appends))
	}
	ll, err := ipfslog.NewFromEntryHash(ctx, ls.API(), world.Identity(0), last, &ipfslog.LogOptions{ID: "L", IO: same}, fol())
	if err != nil {
		tb.Fatalf("same-key load failed: %v", err)
	}
	if ll.Len() != len(p.Appends) {
		tb.Fatalf("same-key load returned %d of %d entries", ll.Len(), len(p.Appends))
	}
	// a replica that loaded with the same key merges into a same-key replica (verification of decoded entries)
	rl2, _ := world.NewLog(ls.API(), (p.Entry.Writer+2)%6, "L", world.OrderLWW, same, nil)
	if _, err := rl2.Join(ll, -1); err != nil {
		tb.Fatalf("entries loaded with the same key do not verify on merge: %v", err)
	}
	// a replica that reopens the log from the store with the key must keep encrypting what it appends
	heads := wl.Heads().Slice()
	manifest, err := wl.ToMultihash(ctx)
	if err != nil {
		tb.Fatalf("ToMultihash: %v", err)
	}
	for li, loader := range []string{"manifest", "json", "entries", "hash"} {
		if li != p.Reopen%4 {
			continue
		}
		lo := &ipfslog.LogOptions{ID: "L", IO: world.IOFresh(world.CodecLinkKey, wk)}
		if gcm {
			lo.IO = world.IOWithKey(world.GCMKey(wk))
		}
		var re *ipfslog.IPFSLog
		var rerr error
		switch loader {
		case "manifest":
			re, rerr = ipfslog.NewFromMultihash(ctx, ls.API(), world.Identity(3), manifest, lo, fol())
		case "json":
			re, rerr = ipfslog.NewFromJSON(ctx, ls.API(), world.Identity(3), wl.ToJSONLog(), lo, fo())
		case "entries":
			re, rerr = ipfslog.NewFromEntry(ctx, ls.API(), world.Identity(3), heads, lo, fo())
		case "hash":
			re, rerr = ipfslog.NewFromEntryHash(ctx, ls.API(), world.Identity(3), last, lo, fol())
		}
		if rerr != nil {
			tb.Fatalf("reopening the log with the key via %s failed: %v", loader, rerr)
		}
		if re.Len() != len(p.Appends) {
			tb.Fatalf("log reopened via %s holds %d of %d entries", loader, re.Len(), len(p.Appends))
		}
		for k := 0; k < 2; k++ {
			ae, err := re.Append(ctx, []byte{byte('r'), byte('0' + li), byte('0' + k)}, &ipfslog.AppendOptions{PointerCount: p.Appends[0] + 2})
			if err != nil {
				tb.Fatalf("append on the log reopened via %s failed: %v", loader, err)
			}
			r, _ := ls.Raw(ae.GetHash())
			checkOpaque(tb, r, append(append([]cid.Cid{}, ae.GetNext()...), ae.GetRefs()...))
			checkOpaque(tb, r, written)
		}
		// and what it appended is readable, verifiable and mergeable by same-key parties
		back, _ := world.NewLog(ls.API(), 4, "L", world.OrderLWW, same, nil)
		if _, err := back.Join(re, -1); err != nil {
			tb.Fatalf("entries appended after reopening via %s do not merge into a same-key replica: %v", loader, err)
		}
	}
	// the published head list, loaded by a same-key reader and then by the other readers
	if jl, err := ipfslog.NewFromJSON(ctx, ls.API(), world.Identity(0), wl.ToJSONLog(), &ipfslog.LogOptions{ID: "L", IO: same}, fo()); err != nil || jl.Len() != len(p.Appends) {
		n := -1
		if jl != nil {
			n = jl.Len()
		}
		tb.Fatalf("same-key load from the published head list: %d of %d entries, error %v", n, len(p.Appends), err)
	}
	for _, name := range []string{"no key", "different key"} {
		io := map[string]ipfslogIO{"no key": noio, "different key": otherio}[name]
		if jl, err := ipfslog.NewFromJSON(ctx, ls.API(), world.Identity(0), wl.ToJSONLog(), &ipfslog.LogOptions{ID: "L", IO: io}, fo()); err == nil {
			if jl.Len() > 1 {
				tb.Fatalf("load from the published head list with %s followed links: got %d entries", name, jl.Len())
			}
			for _, x := range jl.GetEntries().Slice() {
				if len(x.GetNext())+len(x.GetRefs()) > 0 {
					tb.Fatalf("load from the published head list with %s obtained links", name)
				}
			}
		}
	}
	if jl, err := ipfslog.NewFromJSON(ctx, ls.API(), world.Identity(0), wl.ToJSONLog(), &ipfslog.LogOptions{ID: "L", IO: same}, fo()); err != nil || jl.Len() != len(p.Appends) {
		tb.Fatalf("same-key load from the published head list after the other readers' loads failed or is incomplete: %v", err)
	}
	for name, io := range map[string]ipfslogIO{"no key": noio, "different key": otherio} {
		lo, err := ipfslog.NewFromEntryHash(ctx, ls.API(), world.Identity(0), last, &ipfslog.LogOptions{ID: "L", IO: io}, fol())
		if err != nil {
			continue
		}
		if lo.Len() > 1 {
			tb.Fatalf("loader with %s followed links: got %d entries", name, lo.Len())
		}
		for _, x := range lo.GetEntries().Slice() {
			if len(x.GetNext())+len(x.GetRefs()) > 0 {
				tb.Fatalf("loader with %s obtained links", name)
			}
		}
	}
	cl := []string{}
	if len(e.GetNext()) > 0 && len(e.GetRefs()) > 0 {
		cl = append(cl, "next+refs")
	} else if len(all) == 0 {
		cl = append(cl, "no-links")
	}
	return ev.Result{NonTrivial: len(e.GetNext()) >= 1 && len(e.GetRefs()) >= 1, Classes: cl}
}

func TestC18(t *testing.T) {
	c := ev.Get("C18")
	c.Rule = "rapid generates entries as in C08 (0-7 predecessors, 0-7 references incl. CIDv0/raw CIDs, binary payloads) written with one of 6 link keys (the library's secretbox keys or, in a quarter of the cases, keys of another make - AES-GCM with 12-byte nonces - behind the same interface) - in a quarter of the cases through a delegating wrapper that embeds the keyed codec - (and written again with generated create options: pinned and/or hashed before signing), plus a small log (1-8 appends with pointer counts 0..16) written with that key. Oracles: the stored bytes contain no binary or textual form (raw CID bytes, multihash, digest, hex, base32/36/58/64 with and without multibase prefix) of any predecessor/reference or of any earlier block of the log - nor a fragment of one (16 characters of a textual form, 10 bytes of a binary form), be it in the bytes of the block or in what its text fields carry once base64 or hex is taken off - and decode to a node without links; a reader holding the same key (separately constructed codec) recovers identical ordered lists, verifies, merges and loads the whole log; readers with no key or another key - their codecs built from scratch or, in a third of the cases, derived from the writer's codec object with ApplyOptions - get an error or empty lists and load at most the entry itself. Non-trivial = entry with >= 1 predecessor and >= 1 reference; distinct = distinct program. The sealed entry (and a copy) is written again through Entry.ToMultihash, a keyless and an other-key codec: whatever is stored must be opaque; in a quarter of the cases all three codecs are configured through ONE cbor.Options value whose key field the caller changes between the ApplyOptions calls. In a third of the cases the caller keeps ONE fetch-options value (per options type) for every load, whichever reader's codec the load is for; the published head list is loaded by a same-key, a keyless, an other-key and again a same-key reader in turn."
	ev.Check(t, "C18", genC18, runC18)
}

// fatalToPanic turns a failing sub-check into a panic so the caller can add context before failing the case.
type fatalToPanic struct{ ev.TB }

func (f fatalToPanic) Fatalf(format string, args ...any) { panic(fmt.Sprintf(format, args...)) }
