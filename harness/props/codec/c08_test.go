package codec

import (
	"bytes"
	"context"
	"crypto/sha256"
	"encoding/hex"
	"fmt"
	"sync"
	"testing"

	"github.com/ipfs/go-cid"
	mh "github.com/multiformats/go-multihash"
	"pgregory.net/rapid"

	"berty.tech/go-ipfs-log/entry"
	idp "berty.tech/go-ipfs-log/identityprovider"
	"berty.tech/go-ipfs-log/iface"

	"verifharness/ev"
	"verifharness/fakeipfs"
	"verifharness/refenc"
	"verifharness/world"
)

func TestMain(m *testing.M) { ev.Main(m) }

var cidPool = func() []cid.Cid {
	out := make([]cid.Cid, 24)
	for i := range out {
		c, err := cid.V1Builder{Codec: cid.DagCBOR, MhType: mh.SHA2_256}.Sum([]byte(fmt.Sprintf("verif-link-%d", i)))
		if err != nil {
			panic(err)
		}
		out[i] = c
	}
	// a few CIDv0 / other codecs as links too
	c0, _ := cid.V0Builder{}.Sum([]byte("verif-v0"))
	out[22] = c0
	cr, _ := cid.V1Builder{Codec: cid.Raw, MhType: mh.SHA2_256}.Sum([]byte("verif-raw"))
	out[23] = cr
	return out
}()

type c08Prog struct {
	Writer  int    `json:"writer"`
	Codec   int    `json:"codec"` // 0 default, 1 link-key
	Payload []byte `json:"payload"`
	LogID   string `json:"logid"`
	Next    []int  `json:"next"`
	Refs    []int  `json:"refs"`
	ClockID []byte `json:"clockid"`
	Time    int    `json:"time"`
	Heads   []int  `json:"heads"` // manifest heads (indices into cidPool, order matters)
	// Ident, when set, is the identity record the entry carries: any id text (other identity providers use mixed-case
	// addresses, names, ...), provider type and signature bytes. The key - and with it the entry's signature - stays
	// the writer's, so the entry verifies all the same.
	Ident *c08Ident `json:"ident,omitempty"`
	// KeyBuf (link-key codec): 0 the codec gets its key as usual; 1 from a buffer the caller wipes right after building
	// the codec; 2 from a buffer the caller wipes after the entry is written (before it is read back)
	KeyBuf int `json:"keyBuf,omitempty"`
}

type c08Ident struct {
	ID    string `json:"id"`
	Type  string `json:"type"`
	SigID []byte `json:"sigId"`
	SigPK []byte `json:"sigPk"`
}

// aliasProvider signs with the writer's real identity whatever identity record it is handed.
type aliasProvider struct {
	idp.Interface
	real *idp.Identity
}

func (a aliasProvider) Sign(ctx context.Context, _ *idp.Identity, data []byte) ([]byte, error) {
	return a.Interface.Sign(ctx, a.real, data)
}

func identityOf(p c08Prog) *idp.Identity {
	id := world.Identity(p.Writer)
	if p.Ident == nil {
		return id
	}
	return &idp.Identity{
		ID: p.Ident.ID, Type: p.Ident.Type, PublicKey: append([]byte(nil), id.PublicKey...),
		Signatures: &idp.IdentitySignature{ID: append([]byte(nil), p.Ident.SigID...), PublicKey: append([]byte(nil), p.Ident.SigPK...)},
		Provider:   aliasProvider{Interface: id.Provider, real: id},
	}
}

func genC08(t *rapid.T) c08Prog {
	p := c08Prog{
		Writer: rapid.IntRange(0, 5).Draw(t, "writer"),
		Codec:  rapid.IntRange(0, 1).Draw(t, "codec"),
		Payload: rapid.OneOf(
			rapid.SliceOfN(rapid.Byte(), 0, 40),
			rapid.Map(rapid.StringN(0, 16, -1), func(s string) []byte { return []byte(s) }),
			rapid.SampledFrom([][]byte{{}, {0}, {0xff}, {0xff, 0x01}, {0xc3, 0x28}, []byte("hello"), {0xe2, 0x82, 0xac}, {0xed, 0xa0, 0x80}, bytes.Repeat([]byte{0x80}, 300)}),
		).Draw(t, "payload"),
		LogID: rapid.StringMatching(`[a-zA-Z0-9/_\-é€]{1,10}`).Draw(t, "logid"),
		Time: rapid.OneOf(rapid.IntRange(0, 30), rapid.IntRange(0, 1<<62), rapid.SampledFrom([]int{23, 24, 255, 256, 65535, 65536, 1<<32 - 1, 1 << 32, 1 << 40}),
			// a clock handed in through LogOptions.Clock can be below zero: it is a number like any other to the codec
			rapid.SampledFrom([]int{-1, -5, -24, -25, -256, -257, -65536, -65537, -(1 << 32), -(1<<32 + 1), -(1 << 62)}), rapid.IntRange(-(1<<62), -1)).Draw(t, "time"),
	}
	perm := rapid.Permutation(seq(len(cidPool))).Draw(t, "links")
	nn := rapid.IntRange(0, 7).Draw(t, "nnext")
	nr := rapid.IntRange(0, 7).Draw(t, "nrefs")
	p.Next = append([]int{}, perm[:nn]...)
	p.Refs = append([]int{}, perm[nn:nn+nr]...)
	if rapid.Bool().Draw(t, "customClockID") {
		p.ClockID = rapid.SliceOfN(rapid.Byte(), 1, 70).Draw(t, "clockid")
	}
	p.Heads = rapid.SliceOfN(rapid.IntRange(0, len(cidPool)-1), 1, 8).Draw(t, "heads")
	if rapid.IntRange(0, 2).Draw(t, "customIdentity") == 0 {
		p.Ident = &c08Ident{
			ID: rapid.OneOf(
				rapid.StringMatching(`[0-9a-fA-F]{2,66}`),
				rapid.StringMatching(`0x[0-9a-fA-F]{40}`),
				rapid.StringMatching(`[A-Za-z0-9 _.:@/\-]{1,24}`),
				rapid.StringN(1, 16, -1),
			).Draw(t, "identId"),
			Type:  rapid.OneOf(rapid.SampledFrom([]string{"orbitdb", "ethereum", "Wallet-X", "DID"}), rapid.StringN(1, 12, -1)).Draw(t, "identType"),
			SigID: rapid.SliceOfN(rapid.Byte(), 0, 72).Draw(t, "identSigId"),
			SigPK: rapid.SliceOfN(rapid.Byte(), 0, 72).Draw(t, "identSigPk"),
		}
	}
	// a caller may name a predecessor or a reference twice (the library drops the repetition): the entry is still
	// one logical entry with one identifier
	if rapid.IntRange(0, 3).Draw(t, "repeatLinks") == 0 {
		if len(p.Next) >= 2 {
			i := rapid.IntRange(0, len(p.Next)-1).Draw(t, "dupNext")
			at := rapid.IntRange(0, len(p.Next)).Draw(t, "dupNextAt")
			p.Next = append(p.Next[:at:at], append([]int{p.Next[i]}, p.Next[at:]...)...)
		}
		if len(p.Refs) >= 2 && rapid.Bool().Draw(t, "dupRefs") {
			p.Refs = append(p.Refs, p.Refs[0])
		}
	}
	p.KeyBuf = rapid.SampledFrom([]int{0, 0, 1, 2}).Draw(t, "keyBuf")
	// the two link lists are lists of their own: an entry may name one block both as a predecessor and as a reference
	// (Append never does, other writers of the format may)
	if len(p.Next) >= 1 && rapid.IntRange(0, 4).Draw(t, "refAlsoNext") == 0 {
		x := p.Next[rapid.IntRange(0, len(p.Next)-1).Draw(t, "refAlsoNextWhich")]
		at := rapid.IntRange(0, len(p.Refs)).Draw(t, "refAlsoNextAt")
		p.Refs = append(p.Refs[:at:at], append([]int{x}, p.Refs[at:]...)...)
	}
	return p
}

func seq(n int) []int {
	o := make([]int, n)
	for i := range o {
		o[i] = i
	}
	return o
}

func pool(ix []int) []cid.Cid {
	o := make([]cid.Cid, len(ix))
	for i, x := range ix {
		o[i] = cidPool[x%len(cidPool)]
	}
	return o
}

var (
	digestMu sync.Mutex
	digest   = sha256.New()
)

func noteCid(kind string, c cid.Cid) {
	digestMu.Lock()
	fmt.Fprintf(digest, "%s=%s;", kind, c.String())
	ev.Get("C08").SetExtra("cid_digest", hex.EncodeToString(digest.Sum(nil)))
	digestMu.Unlock()
}

func create(tb ev.TB, st *fakeipfs.Store, p c08Prog, io iface.IO) iface.IPFSLogEntry {
	return createWith(tb, st, p, io, nil)
}

func createWith(tb ev.TB, st *fakeipfs.Store, p c08Prog, io iface.IO, opts *iface.CreateEntryOptions) iface.IPFSLogEntry {
	id := identityOf(p)
	cl := append([]byte(nil), p.ClockID...) // fresh slices on every build
	if len(cl) == 0 {
		cl = append([]byte(nil), id.PublicKey...)
	}
	e, err := entry.CreateEntryWithIO(context.Background(), st.API(), id, &entry.Entry{
		LogID:   p.LogID,
		Payload: append([]byte(nil), p.Payload...),
		Next:    pool(p.Next),
		Refs:    pool(p.Refs),
		Clock:   entry.NewLamportClock(cl, p.Time),
	}, opts, io)
	if err != nil {
		tb.Fatalf("harness: CreateEntryWithIO: %v", err)
	}
	return e
}

func sameCids(a, b []cid.Cid) bool {
	if len(a) != len(b) {
		return false
	}
	for i := range a {
		if !a[i].Equals(b[i]) {
			return false
		}
	}
	return true
}

func compareEntries(tb ev.TB, what string, a, b iface.IPFSLogEntry) {
	switch {
	case !bytes.Equal(a.GetPayload(), b.GetPayload()):
		tb.Fatalf("%s: payload %x != %x", what, a.GetPayload(), b.GetPayload())
	case a.GetLogID() != b.GetLogID():
		tb.Fatalf("%s: log id %q != %q", what, a.GetLogID(), b.GetLogID())
	case !sameCids(a.GetNext(), b.GetNext()):
		tb.Fatalf("%s: next %v != %v", what, a.GetNext(), b.GetNext())
	case !sameCids(a.GetRefs(), b.GetRefs()):
		tb.Fatalf("%s: refs %v != %v", what, a.GetRefs(), b.GetRefs())
	case a.GetV() != b.GetV():
		tb.Fatalf("%s: v %d != %d", what, a.GetV(), b.GetV())
	case !bytes.Equal(a.GetKey(), b.GetKey()):
		tb.Fatalf("%s: key differs", what)
	case !bytes.Equal(a.GetSig(), b.GetSig()):
		tb.Fatalf("%s: sig differs", what)
	case !a.GetHash().Equals(b.GetHash()):
		tb.Fatalf("%s: hash %s != %s", what, a.GetHash(), b.GetHash())
	case a.GetClock() == nil || b.GetClock() == nil:
		tb.Fatalf("%s: missing clock", what)
	case !bytes.Equal(a.GetClock().GetID(), b.GetClock().GetID()) || a.GetClock().GetTime() != b.GetClock().GetTime():
		tb.Fatalf("%s: clock (%x,%d) != (%x,%d)", what, a.GetClock().GetID(), a.GetClock().GetTime(), b.GetClock().GetID(), b.GetClock().GetTime())
	}
	ia, ib := a.GetIdentity(), b.GetIdentity()
	if (ia == nil) != (ib == nil) {
		tb.Fatalf("%s: identity presence differs", what)
	}
	if ia != nil {
		if ia.ID != ib.ID || ia.Type != ib.Type || !bytes.Equal(ia.PublicKey, ib.PublicKey) {
			tb.Fatalf("%s: identity differs", what)
		}
		if (ia.Signatures == nil) != (ib.Signatures == nil) || (ia.Signatures != nil && (!bytes.Equal(ia.Signatures.ID, ib.Signatures.ID) || !bytes.Equal(ia.Signatures.PublicKey, ib.Signatures.PublicKey))) {
			tb.Fatalf("%s: identity signatures differ", what)
		}
	}
}

func refEntryOf(e iface.IPFSLogEntry, encrypted bool) refenc.Entry {
	r := refenc.Entry{
		V: e.GetV(), LogID: e.GetLogID(), Key: e.GetKey(), Sig: e.GetSig(),
		Next: e.GetNext(), Refs: e.GetRefs(), ClockID: e.GetClock().GetID(), Time: e.GetClock().GetTime(),
		Payload: e.GetPayload(),
	}
	if id := e.GetIdentity(); id != nil {
		r.Identity = &refenc.Identity{ID: id.ID, Type: id.Type, PublicKey: id.PublicKey, SigID: id.Signatures.ID, SigPK: id.Signatures.PublicKey}
	}
	if encrypted {
		r.Next, r.Refs = nil, nil
		r.EncLinks = e.GetAdditionalData()[iface.KeyEncryptedLinks]
		r.EncNonce = e.GetAdditionalData()[iface.KeyEncryptedLinksNonce]
	}
	return r
}

// C08 — encoding is canonical and decoding is its exact inverse.
func runC08(tb ev.TB, p c08Prog) ev.Result {
	ctx := context.Background()
	codec := world.Codec(p.Codec % 2)
	io := world.IO(codec, 0)
	provider := world.Identity(p.Writer).Provider
	var keyBuf []byte
	if codec == world.CodecLinkKey && p.KeyBuf > 0 {
		// the key bytes live in a buffer of the caller's, which it wipes once the codec is built (1) or once the entry is
		// written (2); the codec must go on using the key it was given
		keyBuf = world.LinkKeyBytes(0)
		io = world.IOFromBuffer(keyBuf)
		if p.KeyBuf == 1 {
			for i := range keyBuf {
				keyBuf[i] = 0
			}
		}
	}

	s1 := fakeipfs.NewStore()
	e := create(tb, s1, p, io)
	if p.KeyBuf == 2 {
		for i := range keyBuf {
			keyBuf[i] = 0
		}
	}
	if codec == world.CodecLinkKey {
		// a second party holding the same key (its own codec object) reads exactly what was written
		twin := world.IOFresh(world.CodecLinkKey, 0)
		dt, err := entry.FromMultihashWithIO(ctx, s1.API(), e.GetHash(), provider, twin)
		if err != nil {
			tb.Fatalf("a codec built separately from the same key cannot read the entry back: %v", err)
		}
		if !sameCids(dt.GetNext(), e.GetNext()) || !sameCids(dt.GetRefs(), e.GetRefs()) {
			tb.Fatalf("a codec built separately from the same key reads next %v refs %v, written next %v refs %v", dt.GetNext(), dt.GetRefs(), e.GetNext(), e.GetRefs())
		}
		if err := dt.Verify(provider, twin); err != nil {
			tb.Fatalf("the entry read back by a codec built separately from the same key does not verify: %v", err)
		}
	}
	noteCid("entry-"+codec.String(), e.GetHash())
	raw, ok := s1.Raw(e.GetHash())
	if !ok {
		tb.Fatalf("block of created entry is not in the store under the returned identifier")
	}
	if e.GetHash().Prefix().Codec != cid.DagCBOR || e.GetHash().Version() != 1 {
		tb.Fatalf("unexpected CID kind %v", e.GetHash().Prefix())
	}
	// (0) reference encoder (independent statement of the format)
	hasLinks := len(p.Next)+len(p.Refs) > 0
	want := refenc.EncodeEntry(refEntryOf(e, codec == world.CodecLinkKey && hasLinks))
	if !bytes.Equal(raw, want) {
		tb.Fatalf("stored block differs from the canonical reference encoding (codec %s):\n got  %x\n want %x", codec, raw, want)
	}
	if rc := refenc.CidOf(want); !rc.Equals(e.GetHash()) {
		tb.Fatalf("identifier %s is not the dag-cbor/sha2-256 CID of the canonical bytes (%s)", e.GetHash(), rc)
	}
	// (1) read back == written
	d, err := entry.FromMultihashWithIO(ctx, s1.API(), e.GetHash(), provider, io)
	if err != nil {
		tb.Fatalf("reading back a written entry failed (codec %s): %v", codec, err)
	}
	compareEntries(tb, "read-back ("+codec.String()+")", e, d)
	// (2) re-encoding the decoded entry gives the same identifier (default codec)
	if codec == world.CodecDefault {
		s2 := fakeipfs.NewStore()
		c2, err := entry.ToMultihashWithIO(ctx, d, s2.API(), nil, io)
		if err != nil {
			tb.Fatalf("re-encoding failed: %v", err)
		}
		if !c2.Equals(e.GetHash()) {
			r2, _ := s2.Raw(c2)
			tb.Fatalf("re-encoding the decoded entry gives %s, original %s\n orig %x\n new  %x", c2, e.GetHash(), raw, r2)
		}
		// handing the entry - decoded, or as created - straight to the codec (how a block is re-published or copied to
		// another store) is an encoding of the same logical entry as well
		for what, x := range map[string]iface.IPFSLogEntry{"decoded": d, "created": e} {
			c4, err := io.Write(ctx, s2.API(), x, nil)
			if err != nil {
				tb.Fatalf("codec Write of the %s entry failed: %v", what, err)
			}
			if !c4.Equals(e.GetHash()) {
				r4, _ := s2.Raw(c4)
				tb.Fatalf("writing the %s entry through the codec gives %s, original %s\n orig %x\n new  %x", what, c4, e.GetHash(), raw, r4)
			}
		}
		// the identity record an entry carries is a field of its own: it need not name the key the entry is signed
		// with (an entry relayed under another holder's record, say). Written through the codec and read back,
		// the record is what was written, and re-encoding gives the same identifier.
		if p.Ident != nil && len(p.Ident.SigPK) >= 8 {
			v := e.Copy()
			rec := *e.GetIdentity()
			rec.PublicKey = append([]byte{0x04}, p.Ident.SigPK...)
			v.SetIdentity(&rec)
			cv, err := io.Write(ctx, s2.API(), v, nil)
			if err != nil {
				tb.Fatalf("codec Write of an entry whose identity record names another key failed: %v", err)
			}
			dv, err := entry.FromMultihashWithIO(ctx, s2.API(), cv, provider, io)
			if err != nil {
				tb.Fatalf("reading back an entry whose identity record names another key failed: %v", err)
			}
			if !bytes.Equal(dv.GetIdentity().PublicKey, rec.PublicKey) || !bytes.Equal(dv.GetKey(), e.GetKey()) {
				tb.Fatalf("read-back of an entry whose identity record names another key: identity key %x (written %x), entry key %x (written %x)", dv.GetIdentity().PublicKey, rec.PublicKey, dv.GetKey(), e.GetKey())
			}
			if c5, err := io.Write(ctx, fakeipfs.NewStore().API(), dv, nil); err != nil || !c5.Equals(cv) {
				tb.Fatalf("re-encoding the decoded entry (identity record naming another key) gives %s (%v), original %s", c5, err, cv)
			}
		}
		// and the entry's own method agrees
		if de, ok := d.(*entry.Entry); ok {
			c3, err := de.ToMultihash(ctx, s2.API(), nil)
			if err != nil || !c3.Equals(e.GetHash()) {
				tb.Fatalf("Entry.ToMultihash of the decoded entry gives %s (%v), original %s", c3, err, e.GetHash())
			}
		}
	} else {
		// same-key re-encode is deterministic too (nonce derived from content)
		s2 := fakeipfs.NewStore()
		e2 := create(tb, s2, p, io)
		if !e2.GetHash().Equals(e.GetHash()) {
			tb.Fatalf("link-key codec: same logical entry encoded twice gives %s and %s", e.GetHash(), e2.GetHash())
		}
	}
	// (3) same logical entry built a second time, fresh structs, other store
	s3 := fakeipfs.NewStore()
	e3 := create(tb, s3, p, io)
	if !e3.GetHash().Equals(e.GetHash()) {
		tb.Fatalf("the same logical entry encoded twice gives %s and %s", e.GetHash(), e3.GetHash())
	}
	raw3, _ := s3.Raw(e3.GetHash())
	if !bytes.Equal(raw, raw3) {
		tb.Fatalf("the same logical entry encoded twice gives different bytes")
	}

	// ---- near-identical siblings written through the SAME codec instance: an entry that differs from the
	// first one in a single field must still round-trip to itself (a codec may keep state between calls)
	for _, variant := range []string{"refs", "next", "payload", "time"} {
		q := p
		switch variant {
		case "refs":
			if len(q.Refs) > 0 {
				q.Refs = append([]int{}, q.Refs[:len(q.Refs)-1]...)
			} else {
				// one reference that is not among the predecessors
				for c := 0; c < len(cidPool); c++ {
					used := false
					for _, n := range q.Next {
						if n%len(cidPool) == c {
							used = true
						}
					}
					if !used {
						q.Refs = []int{c}
						break
					}
				}
			}
		case "next":
			if len(q.Next) >= 2 {
				q.Next = append([]int{p.Next[len(p.Next)-1]}, p.Next[:len(p.Next)-1]...) // rotated order (fresh slice)
			} else {
				continue
			}
		case "payload":
			q.Payload = append(append([]byte{}, p.Payload...), 'x')
		case "time":
			q.Time = p.Time + 1
		}
		sv := create(tb, s1, q, io)
		dv, err := entry.FromMultihashWithIO(ctx, s1.API(), sv.GetHash(), provider, io)
		if err != nil {
			tb.Fatalf("reading back the %s-sibling failed (codec %s): %v", variant, codec, err)
		}
		compareEntries(tb, "read-back of the "+variant+"-sibling ("+codec.String()+")", sv, dv)
		if err := dv.Verify(provider, io); err != nil {
			tb.Fatalf("the %s-sibling read back does not verify (codec %s): %v", variant, codec, err)
		}
		// (with repeated links the variant may be the same logical entry: the library drops repetitions)
		if sv.GetHash().Equals(e.GetHash()) && !(sameCids(sv.GetNext(), e.GetNext()) && sameCids(sv.GetRefs(), e.GetRefs()) && bytes.Equal(sv.GetPayload(), e.GetPayload()) && sv.GetClock().GetTime() == e.GetClock().GetTime()) {
			tb.Fatalf("two entries that differ in %s have the same identifier", variant)
		}
	}

	// ---- manifest
	heads := pool(p.Heads)
	mc, err := io.Write(ctx, s1.API(), &iface.JSONLog{ID: p.LogID, Heads: heads}, nil)
	if err != nil {
		tb.Fatalf("writing a manifest failed: %v", err)
	}
	noteCid("manifest", mc)
	mraw, _ := s1.Raw(mc)
	mwant := refenc.EncodeManifest(p.LogID, heads)
	if !bytes.Equal(mraw, mwant) || !refenc.CidOf(mwant).Equals(mc) {
		tb.Fatalf("manifest block differs from the canonical reference encoding:\n got  %x\n want %x", mraw, mwant)
	}
	node, err := io.Read(ctx, s1.API(), mc)
	if err != nil {
		tb.Fatalf("reading a manifest failed: %v", err)
	}
	jl, err := io.DecodeRawJSONLog(node)
	if err != nil {
		tb.Fatalf("decoding a manifest failed: %v", err)
	}
	if jl.ID != p.LogID || !sameCids(jl.Heads, heads) {
		tb.Fatalf("manifest read-back differs: %q %v vs %q %v", jl.ID, jl.Heads, p.LogID, heads)
	}
	mc2, err := io.Write(ctx, fakeipfs.NewStore().API(), &iface.JSONLog{ID: string([]byte(p.LogID)), Heads: append([]cid.Cid(nil), heads...)}, nil)
	if err != nil || !mc2.Equals(mc) {
		tb.Fatalf("the same manifest encoded twice gives %s and %s (%v)", mc, mc2, err)
	}

	nonUTF8 := false
	for _, b := range p.Payload {
		if b >= 0x80 {
			nonUTF8 = true
		}
	}
	cl := []string{"codec-" + codec.String()}
	if nonUTF8 {
		cl = append(cl, "payload-non-ascii")
	}
	if len(p.Next)+len(p.Refs) >= 2 {
		cl = append(cl, "links>=2")
	}
	if p.Time > 1<<32 {
		cl = append(cl, "time>2^32")
	}
	return ev.Result{NonTrivial: nonUTF8 || len(p.Next)+len(p.Refs) >= 2 || p.Time > 1<<32, Classes: cl}
}

func TestC08(t *testing.T) {
	c := ev.Get("C08")
	c.Rule = "rapid generates entries (binary payloads incl. invalid UTF-8 and 300-byte runs, 0-7 predecessors and 0-7 references from a CID pool incl. CIDv0/raw links, default or custom clock ids up to 70 bytes, times incl. every CBOR integer-width boundary up to 2^62 and below zero down to -2^62, 6 writer identities and - in a third of the cases - a generated identity record: any id text such as mixed-case hex or addresses, names, unicode; any provider type; any signature bytes; the key stays the writer's, default or link-key codec) and manifests (1-8 heads in generated order). Oracles (re-encoding goes through ToMultihashWithIO, Entry.ToMultihash and the codec's own Write, for the decoded and the created entry): stored bytes == the harness's own canonical DAG-CBOR reference encoder and CID == sha2-256 CID of those bytes; read-back equals the written entry field by field; default codec: re-encoding the decoded entry gives the same CID; the same logical value built again from fresh structs in another store gives the same bytes; the run's (case, CID) digest is compared between two processes with the same seed by the driver. Non-trivial = payload has a non-ASCII byte, or >= 2 links, or time > 2^32; distinct = distinct program. Pinned interop vectors are checked by TestC08Vectors in the same run. Link-key cases: in half of them the key comes from a buffer the caller wipes after building the codec or after the write; a separately built same-key codec must read the entry back identically. A fifth of the entries name one of their predecessors among their references too."
	c.Assumptions = []string{"nil and empty link lists are the same logical value", "the legacy codec is only claimed for decoding v0 blocks (TestC08Vectors)", "'any process' is sampled as two processes with the same seed"}
	ev.Check(t, "C08", genC08, runC08)
}
