package codec

import (
	"testing"

	"pgregory.net/rapid"

	"verifharness/ev"
)

// FuzzC08 / FuzzC18: the generators and oracles of TestC08 / TestC18 under Go's
// coverage-guided fuzzer (fuzz bytes = rapid's bit stream). Thorough tier only.
func FuzzC08(f *testing.F) {
	coll := ev.Get("C08")
	f.Fuzz(rapid.MakeFuzz(func(t *rapid.T) {
		p := genC08(t)
		coll.Record(p, runC08(t, p))
	}))
}

func FuzzC18(f *testing.F) {
	coll := ev.Get("C18")
	f.Fuzz(rapid.MakeFuzz(func(t *rapid.T) {
		p := genC18(t)
		coll.Record(p, runC18(t, p))
	}))
}
