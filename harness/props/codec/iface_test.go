package codec

import "berty.tech/go-ipfs-log/iface"

type ipfslogIO = iface.IO
