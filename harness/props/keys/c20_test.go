package keys

import (
	"bytes"
	"context"
	"encoding/hex"
	"errors"
	"fmt"
	"testing"

	ds "github.com/ipfs/go-datastore"
	dssync "github.com/ipfs/go-datastore/sync"
	"github.com/libp2p/go-libp2p/core/crypto"
	"pgregory.net/rapid"

	"berty.tech/go-ipfs-log/entry"
	idp "berty.tech/go-ipfs-log/identityprovider"
	"berty.tech/go-ipfs-log/keystore"

	"verifharness/ev"
	"verifharness/fakeipfs"
	"verifharness/world"
)

func TestMain(m *testing.M) { ev.Main(m) }

type kop struct {
	Kind string `json:"k"`    // create | get | has | reopen | burst | identity
	Inst int    `json:"inst"` // keystore instance (mod)
	ID   int    `json:"id"`   // index into the id pool
	N    int    `json:"n,omitempty"`
	Wipe bool   `json:"wipe,omitempty"` // create / get: the caller wipes the key object it was handed once it is done with it
}

type c20Prog struct {
	Instances int   `json:"instances"`
	OneIDOpts bool  `json:"oneIdOpts,omitempty"` // the caller keeps ONE CreateIdentityOptions value for every identity it creates - also for identities of another keystore over another datastore
	Plain     bool  `json:"plain,omitempty"` // the shared datastore does not offer batches (default: it does, like the usual ones)
	Ops       []kop `json:"ops"`
}

var idPool = []string{"a", "b", "ab", "userA", "a/b", "x/y/z", "é", "日本", "with space", "UPPER", "0",
	"02e912d824a865bd7f87fff26508ad3b6cb6f37c9b5d8e851e334a69f72eec36d5",
	"a-very-long-identifier-a-very-long-identifier-a-very-long-identifier-a-very-long-identifier-a-very-long-identifier",
	"c", "d", "e", "/lead/slash", "trail/"}

func genC20(t *rapid.T) c20Prog {
	p := c20Prog{Instances: rapid.IntRange(1, 3).Draw(t, "instances"), Plain: rapid.IntRange(0, 2).Draw(t, "plainStore") == 0}
	n := rapid.IntRange(3, 30).Draw(t, "nops")
	kinds := []string{"create", "create", "create", "get", "get", "has", "has", "has", "reopen", "burst", "identity", "createfail", "createfail"}
	bursts := 0
	for i := 0; i < n; i++ {
		o := kop{Kind: rapid.SampledFrom(kinds).Draw(t, "kind"), Inst: rapid.IntRange(0, p.Instances-1).Draw(t, "inst"), ID: rapid.IntRange(0, len(idPool)-1).Draw(t, "id")}
		if o.Kind == "createfail" {
			o.N = rapid.IntRange(0, 1).Draw(t, "retry") // 1: the creation is tried again at once
		}
		if o.Kind == "create" || o.Kind == "get" {
			o.Wipe = rapid.IntRange(0, 3).Draw(t, "wipe") == 0
		}
		if o.Kind == "burst" {
			if bursts >= 2 {
				o.Kind = "has"
			} else {
				bursts++
				o.N = rapid.IntRange(130, 300).Draw(t, "n")
			}
		}
		p.Ops = append(p.Ops, o)
	}
	p.OneIDOpts = rapid.IntRange(0, 2).Draw(t, "oneIdOpts") == 0
	return p
}

// C20 — key material and identities are stable and self-consistent.
func runC20(tb ev.TB, p c20Prog) ev.Result {
	ctx := context.Background()
	flaky := &flakyDS{Batching: dssync.MutexWrap(ds.NewMapDatastore())}
	var store ds.Datastore = flaky
	if p.Plain {
		store = plainDS{flaky}
	}
	mk := func() *keystore.Keystore {
		k, err := keystore.NewKeystore(store)
		if err != nil {
			tb.Fatalf("NewKeystore: %v", err)
		}
		return k
	}
	if p.Instances < 1 {
		p.Instances = 1
	}
	var inst []*keystore.Keystore
	for i := 0; i < p.Instances; i++ {
		inst = append(inst, mk())
	}
	model := map[string][]byte{}     // id -> public key bytes
	creator := map[string]int{}       // id -> instance that created it
	createdAt := map[string]int{}     // id -> op index
	generation := make([]int, p.Instances) // bumps on reopen
	createGen := map[string]int{}
	sinceCreate := map[string]int{} // keys created on the creator instance since id was created (eviction estimate)
	burstSeq := 0
	oneIDOpts := &idp.CreateIdentityOptions{}
	var asideKS *keystore.Keystore
	var sharedProvider idp.Interface // the provider object of the first identity created in this program
	sharedFor := ""
	nt := false
	classes := map[string]bool{}

	pub := func(k crypto.PrivKey) []byte {
		b, err := k.GetPublic().Raw()
		if err != nil {
			tb.Fatalf("public key: %v", err)
		}
		return b
	}
	noteCreate := func(id string, in int, op int, k crypto.PrivKey) {
		model[id] = pub(k)
		creator[id], createdAt[id], createGen[id] = in, op, generation[in]
		for other := range sinceCreate {
			if creator[other] == in {
				sinceCreate[other]++
			}
		}
		sinceCreate[id] = 0
	}
	// a lookup is "remote" when answered by another instance, after a reopen, or after > 128 later creations (eviction)
	remote := func(id string, in int) bool {
		return creator[id] != in || generation[in] != createGen[id] || sinceCreate[id] > 128
	}

	for i, o := range p.Ops {
		in := o.Inst % p.Instances
		ks := inst[in]
		id := idPool[o.ID%len(idPool)]
		switch o.Kind {
		case "createfail":
			// the datastore write fails: CreateKey must fail and the id must stay absent everywhere
			if _, exists := model[id]; exists {
				continue
			}
			classes["create-with-failing-write"] = true
			flaky.failPuts = 1
			_, err := ks.CreateKey(ctx, id)
			flaky.failPuts = 0
			if err == nil {
				// no error although a write failed: fine if the key was stored after all (a retry); it then has to
				// behave like every created key from here on
				k, gerr := ks.GetKey(ctx, id)
				if gerr != nil {
					tb.Fatalf("op #%d CreateKey(%q) returned no error although the datastore write failed, and the key cannot be read back: %v", i, id, gerr)
				}
				noteCreate(id, in, i, k)
				continue
			}
			for si, k2 := range append(append([]*keystore.Keystore{}, inst...), mk()) {
				if ok, _ := k2.HasKey(ctx, id); ok {
					tb.Fatalf("op #%d: after a failed CreateKey(%q) instance %d reports the key present", i, id, si)
				}
				if _, err := k2.GetKey(ctx, id); err == nil {
					tb.Fatalf("op #%d: after a failed CreateKey(%q) instance %d returns a key", i, id, si)
				}
			}
			if o.N%2 == 1 {
				// the caller tries again at once, the datastore works again: an ordinary creation from here on
				k, err := ks.CreateKey(ctx, id)
				if err != nil {
					tb.Fatalf("op #%d CreateKey(%q) again after a failed datastore write: %v", i, id, err)
				}
				noteCreate(id, in, i, k)
				classes["create-retried-after-failing-write"] = true
			}
		case "create":
			if _, exists := model[id]; exists {
				// callers create a key only when it does not exist yet: query instead
				o.Kind = "get"
			} else {
				k, err := ks.CreateKey(ctx, id)
				if err != nil {
					tb.Fatalf("op #%d CreateKey(%q): %v", i, id, err)
				}
				noteCreate(id, in, i, k)
				if o.Wipe {
					wipe(k)
					classes["caller-wipes-the-key-object-it-got"] = true
				}
				// immediately visible on the creating instance
				if ok, err := ks.HasKey(ctx, id); !ok || err != nil {
					tb.Fatalf("op #%d: HasKey(%q) right after CreateKey = %v, %v", i, id, ok, err)
				}
				continue
			}
			fallthrough
		case "get":
			want, exists := model[id]
			k, err := ks.GetKey(ctx, id)
			if exists {
				if err != nil {
					tb.Fatalf("op #%d GetKey(%q) on instance %d (created by %d): %v", i, id, in, creator[id], err)
				}
				if !bytes.Equal(pub(k), want) {
					tb.Fatalf("op #%d GetKey(%q) on instance %d returned a different key than the one created", i, id, in)
				}
				if o.Wipe {
					wipe(k)
					classes["caller-wipes-the-key-object-it-got"] = true
				}
				if remote(id, in) {
					nt = true
					classes["get-remote"] = true
				}
			} else if err == nil {
				tb.Fatalf("op #%d GetKey(%q) for an id that was never created returned a key", i, id)
			}
		case "has":
			_, exists := model[id]
			ok, err := ks.HasKey(ctx, id)
			if exists {
				if !ok {
					tb.Fatalf("op #%d HasKey(%q) on instance %d = false (err %v) although the key was created (by instance %d at op #%d, reopened since: %v)", i, id, in, err, creator[id], createdAt[id], generation[in] != createGen[id])
				}
				if remote(id, in) {
					nt = true
					classes["has-remote"] = true
				}
			} else if ok {
				tb.Fatalf("op #%d HasKey(%q) = true for an id that was never created", i, id)
			}
		case "reopen":
			inst[in] = mk()
			generation[in]++
			classes["reopen"] = true
		case "burst":
			for j := 0; j < o.N; j++ {
				bid := fmt.Sprintf("burst-%d-%d", burstSeq, j)
				k, err := ks.CreateKey(ctx, bid)
				if err != nil {
					tb.Fatalf("op #%d burst CreateKey: %v", i, err)
				}
				noteCreate(bid, in, i, k)
			}
			// the first keys of the burst are long evicted from the 128-entry cache
			for _, j := range []int{0, 1, o.N / 2, o.N - 1} {
				bid := fmt.Sprintf("burst-%d-%d", burstSeq, j)
				if ok, err := ks.HasKey(ctx, bid); !ok {
					tb.Fatalf("op #%d: HasKey(%q) = false (err %v) after creating %d keys (cache holds 128)", i, bid, err, o.N)
				}
				k, err := ks.GetKey(ctx, bid)
				if err != nil || !bytes.Equal(pub(k), model[bid]) {
					tb.Fatalf("op #%d: GetKey(%q) after eviction: %v", i, bid, err)
				}
			}
			nt = true
			classes["burst"] = true
			burstSeq++
		case "identity":
			classes["identity"] = true
			aOpts := &idp.CreateIdentityOptions{Keystore: ks, ID: id, Type: "orbitdb"}
			if p.OneIDOpts {
				oneIDOpts.Keystore, oneIDOpts.ID, oneIDOpts.Type = ks, id, "orbitdb"
				aOpts = oneIDOpts
			}
			a, err := idp.CreateIdentity(ctx, aOpts)
			if err != nil {
				tb.Fatalf("op #%d CreateIdentity(%q): %v", i, id, err)
			}
			if p.OneIDOpts {
				// the same options value then serves for an identity that lives elsewhere (another keystore over another
				// datastore); identity a was created and is none of that value's business any more
				classes["one-CreateIdentityOptions-value"] = true
				if asideKS == nil {
					if asideKS, err = keystore.NewKeystore(dssync.MutexWrap(ds.NewMapDatastore())); err != nil {
						tb.Fatalf("harness: %v", err)
					}
				}
				oneIDOpts.Keystore, oneIDOpts.ID = asideKS, fmt.Sprintf("elsewhere-%d", i)
				if _, err := idp.CreateIdentity(ctx, oneIDOpts); err != nil {
					tb.Fatalf("op #%d CreateIdentity for another keystore with the caller's one options value: %v", i, err)
				}
			}
			// CreateIdentity creates the two keys it needs when absent: reflect that in the model
			for _, name := range []string{id, a.ID} {
				if _, ok := model[name]; !ok {
					k, err := ks.GetKey(ctx, name)
					if err != nil {
						tb.Fatalf("op #%d: key %q used by the identity is not in the keystore: %v", i, name, err)
					}
					noteCreate(name, in, i, k)
				}
			}
			other := inst[(in+1)%p.Instances]
			b, err := idp.CreateIdentity(ctx, &idp.CreateIdentityOptions{Keystore: other, ID: id, Type: "orbitdb"})
			if err != nil {
				tb.Fatalf("op #%d second CreateIdentity(%q): %v", i, id, err)
			}
			if a.ID != b.ID || a.Type != b.Type || !bytes.Equal(a.PublicKey, b.PublicKey) {
				tb.Fatalf("op #%d: creating the identity %q twice gives different identities: %s/%x vs %s/%x", i, id, a.ID, a.PublicKey, b.ID, b.PublicKey)
			}
			if !bytes.Equal(a.Signatures.ID, b.Signatures.ID) || !bytes.Equal(a.Signatures.PublicKey, b.Signatures.PublicKey) {
				tb.Fatalf("op #%d: identity %q created twice has different signatures", i, id)
			}
			// id == hex of the public key of the key named by the caller's id
			if want := hex.EncodeToString(model[id]); a.ID != want {
				tb.Fatalf("op #%d: identity id %s is not the public key of key %q (%s)", i, a.ID, id, want)
			}
			// id signature verifies under the published public key over the id
			pk, err := a.GetPublicKey()
			if err != nil {
				pk2, err2 := crypto.UnmarshalSecp256k1PublicKey(a.PublicKey)
				if err2 != nil {
					tb.Fatalf("op #%d: published public key does not parse: %v / %v", i, err, err2)
				}
				pk = pk2
			}
			if ok, err := pk.Verify([]byte(a.ID), a.Signatures.ID); err != nil || !ok {
				tb.Fatalf("op #%d: id signature does not verify under the published key: %v", i, err)
			}
			// public-key signature verifies under the key the id denotes, over hex(publicKey || idSignature)
			idKeyBytes, err := hex.DecodeString(a.ID)
			if err != nil {
				tb.Fatalf("op #%d: identity id is not hex: %v", i, err)
			}
			idKey, err := crypto.UnmarshalSecp256k1PublicKey(idKeyBytes)
			if err != nil {
				tb.Fatalf("op #%d: identity id does not denote a key: %v", i, err)
			}
			msg := []byte(hex.EncodeToString(append(append([]byte{}, a.PublicKey...), a.Signatures.ID...)))
			if ok, err := idKey.Verify(msg, a.Signatures.PublicKey); err != nil || !ok {
				tb.Fatalf("op #%d: public-key signature does not verify under the key the id denotes: %v", i, err)
			}
			// entries signed with the identity verify under the published key bytes
			st := fakeipfs.NewStore()
			e, err := entry.CreateEntryWithIO(ctx, st.API(), a, &entry.Entry{LogID: "L", Payload: []byte("p")}, nil, world.IO(world.CodecDefault, 0))
			if err != nil {
				tb.Fatalf("op #%d: entry creation with the identity failed: %v", i, err)
			}
			if !bytes.Equal(e.GetKey(), a.PublicKey) {
				tb.Fatalf("op #%d: entry key differs from the identity's public key", i)
			}
			if err := e.Verify(b.Provider, world.IO(world.CodecDefault, 0)); err != nil {
				tb.Fatalf("op #%d: entry signed with the identity does not verify: %v", i, err)
			}
			// the provider object is not part of the identity record: an application that restores its identities
			// attaches ONE provider to all of them (the library's decoder does the same for every record it reads).
			// An entry signed with this identity through the provider another identity was created with verifies
			// under this identity's published key all the same.
			if sharedProvider == nil {
				sharedProvider, sharedFor = a.Provider, a.ID
			}
			if sharedFor != a.ID {
				classes["identity-through-a-shared-provider"] = true
				restored := &idp.Identity{ID: a.ID, PublicKey: a.PublicKey, Signatures: a.Signatures, Type: a.Type, Provider: sharedProvider}
				e2, err := entry.CreateEntryWithIO(ctx, st.API(), restored, &entry.Entry{LogID: "L", Payload: []byte("q")}, nil, world.IO(world.CodecDefault, 0))
				if err != nil {
					tb.Fatalf("op #%d: entry creation with the restored identity (provider shared with identity %s) failed: %v", i, sharedFor, err)
				}
				if !bytes.Equal(e2.GetKey(), a.PublicKey) {
					tb.Fatalf("op #%d: entry key differs from the restored identity's public key", i)
				}
				if err := e2.Verify(b.Provider, world.IO(world.CodecDefault, 0)); err != nil {
					tb.Fatalf("op #%d: entry signed with identity %s through the provider object identity %s was created with does not verify under its published key: %v", i, a.ID, sharedFor, err)
				}
			}
			vk, err := crypto.UnmarshalSecp256k1PublicKey(a.PublicKey)
			if err != nil {
				tb.Fatalf("op #%d: published key bytes do not parse as secp256k1: %v", i, err)
			}
			_ = vk
		}
	}
	// final sweep: every instance (and a brand-new one) reports every created key, identically
	fresh := mk()
	sweep := append(append([]*keystore.Keystore{}, inst...), fresh)
	n := 0
	for id, want := range model {
		n++
		if n > 40 && len(id) > 6 && id[:6] == "burst-" {
			continue
		}
		for si, ks := range sweep {
			if ok, err := ks.HasKey(ctx, id); !ok {
				tb.Fatalf("final sweep: HasKey(%q) on instance %d = false (%v)", id, si, err)
			}
			k, err := ks.GetKey(ctx, id)
			if err != nil || !bytes.Equal(pub(k), want) {
				tb.Fatalf("final sweep: GetKey(%q) on instance %d: %v", id, si, err)
			}
		}
	}
	for _, id := range []string{"never-created", "a/never", "zz"} {
		if _, ok := model[id]; ok {
			continue
		}
		if ok, _ := fresh.HasKey(ctx, id); ok {
			tb.Fatalf("HasKey(%q) = true for an id that was never created", id)
		}
		if _, err := fresh.GetKey(ctx, id); err == nil {
			tb.Fatalf("GetKey(%q) returned a key for an id that was never created", id)
		}
	}
	var cl []string
	for c := range classes {
		cl = append(cl, c)
	}
	return ev.Result{NonTrivial: nt, Classes: cl}
}

// flakyDS makes the next failPuts Put calls fail.
// flakyDS is a datastore that offers batches, as the usual datastores do (plainDS hides that capability).
type flakyDS struct {
	ds.Batching
	failPuts int
}

type plainDS struct{ ds.Datastore }

func (f *flakyDS) Put(ctx context.Context, k ds.Key, v []byte) error {
	if f.failPuts > 0 {
		f.failPuts--
		return errors.New("injected datastore write failure")
	}
	return f.Batching.Put(ctx, k, v)
}

func TestC20(t *testing.T) {
	c := ev.Get("C20")
	c.Rule = "stateful model-based generation: 3-30 operations on 1-3 keystore instances sharing one datastore: create(id) (only for ids absent from the model, as every caller does), create with a failing datastore write (must fail and leave the id absent on every instance), get, has, reopen(instance), createBurst(130-300 fresh ids, beyond the 128-entry cache), createIdentity(id) on two instances; ids from a pool with slashes, unicode, spaces, long and hex-like names. Model = map id -> public key. has must be true exactly for created ids (false with an error counts as absent), get must return the created key or an error; identities created twice must be identical (incl. signatures), the id signature must verify under the published key over the id, the public-key signature under the key the id denotes over hex(publicKey || idSignature), and an entry signed with the identity - also through the provider object another identity was created with - must carry and verify under the published key; a final sweep queries every key on every instance and on a brand-new one. Non-trivial = a present id queried on another instance, after a reopen or after eviction (burst); distinct = distinct program. A quarter of the create / get operations end with the caller wiping the key object it was handed. In a third of the programs the caller keeps ONE CreateIdentityOptions value for every identity it creates, identities of a keystore over another datastore included."
	c.Assumptions = []string{"no two ids of the pool alias under the datastore's key cleaning (the pool has one id with a leading and one with a trailing slash, but not their cleaned twins; double slashes and dot segments are left out): the datastore cleans key paths, so ids that clean to the same path are one key by construction", "create is only issued for ids that do not exist (CreateKey overwrites by design)"}
	ev.Check(t, "C20", genC20, runC20)
}

// wipe clears the private key object a caller was handed (key hygiene: the object is the caller's).
func wipe(k crypto.PrivKey) {
	if sk, ok := k.(*crypto.Secp256k1PrivateKey); ok && sk != nil {
		*sk = crypto.Secp256k1PrivateKey{}
	}
}
