package keys

import (
	"bytes"
	"context"
	"fmt"
	"sync"
	"testing"

	ds "github.com/ipfs/go-datastore"
	dssync "github.com/ipfs/go-datastore/sync"
	"pgregory.net/rapid"

	"berty.tech/go-ipfs-log/keystore"

	"verifharness/ev"
)

// C20 quantifies over "all interleavings of create/get/has across keystore instances sharing a datastore". TestC20
// generates sequential interleavings; here the operations really overlap: several goroutines ask 1-2 keystores over
// one datastore for keys that were all created before the goroutines started, while other goroutines create new keys
// (more than the cache holds, so entries are evicted under the readers' feet). Whatever the schedule, a key created
// before must be reported present and returned identically by every call, and an id never created reported absent.

type c20ParProg struct {
	Stores  int   `json:"stores"`  // keystore instances over the one datastore (1-2)
	Before  int   `json:"before"`  // keys created before the concurrent phase (may exceed the cache capacity of 128)
	Readers []int `json:"readers"` // per reader goroutine: a stride; it asks for key (i*stride+offset) mod Before, alternating GetKey / HasKey
	Writers int   `json:"writers"` // goroutines creating fresh keys meanwhile
	PerW    int   `json:"perWriter"`
	Rounds  int   `json:"rounds"`
}

func genC20Par(t *rapid.T) c20ParProg {
	return c20ParProg{
		Stores:  rapid.IntRange(1, 2).Draw(t, "stores"),
		Before:  rapid.SampledFrom([]int{3, 60, 127, 128, 129, 140, 200}).Draw(t, "before"),
		Readers: rapid.SliceOfN(rapid.IntRange(1, 37), 2, 5).Draw(t, "readers"),
		Writers: rapid.IntRange(0, 3).Draw(t, "writers"),
		PerW:    rapid.SampledFrom([]int{5, 40, 150}).Draw(t, "perWriter"),
		Rounds:  rapid.SampledFrom([]int{50, 200, 400}).Draw(t, "rounds"),
	}
}

func runC20Par(tb ev.TB, p c20ParProg) ev.Result {
	ctx := context.Background()
	dstore := dssync.MutexWrap(ds.NewMapDatastore())
	var stores []*keystore.Keystore
	for i := 0; i < p.Stores; i++ {
		ks, err := keystore.NewKeystore(dstore)
		if err != nil {
			tb.Fatalf("harness: NewKeystore: %v", err)
		}
		stores = append(stores, ks)
	}
	want := make([][]byte, p.Before)
	for i := range want {
		k, err := stores[i%len(stores)].CreateKey(ctx, fmt.Sprintf("k%d", i))
		if err != nil {
			tb.Fatalf("CreateKey(k%d): %v", i, err)
		}
		raw, err := k.Raw()
		if err != nil {
			tb.Fatalf("harness: %v", err)
		}
		want[i] = raw
	}
	var wg sync.WaitGroup
	var mu sync.Mutex
	var failures []string
	fail := func(format string, args ...any) {
		mu.Lock()
		failures = append(failures, fmt.Sprintf(format, args...))
		mu.Unlock()
	}
	start := make(chan struct{})
	for ri, stride := range p.Readers {
		wg.Add(1)
		go func(ri, stride int) {
			defer wg.Done()
			<-start
			for r := 0; r < p.Rounds; r++ {
				i := (r*stride + ri) % p.Before
				ks := stores[(ri+r)%len(stores)]
				id := fmt.Sprintf("k%d", i)
				if r%2 == 0 {
					k, err := ks.GetKey(ctx, id)
					if err != nil {
						fail("GetKey(%s) failed for a key created before (%d keys exist, %d keystores, other goroutines are reading and creating): %v", id, p.Before, p.Stores, err)
						return
					}
					raw, _ := k.Raw()
					if !bytes.Equal(raw, want[i]) {
						fail("GetKey(%s) returned another key than the one created", id)
						return
					}
				} else {
					ok, err := ks.HasKey(ctx, id)
					if err != nil || !ok {
						fail("HasKey(%s) = %v, %v for a key created before", id, ok, err)
						return
					}
				}
				if r%16 == 5 {
					if ok, err := ks.HasKey(ctx, fmt.Sprintf("never-%d-%d", ri, r)); ok && err == nil {
						fail("HasKey reports an id that was never created as present")
						return
					}
				}
			}
		}(ri, stride)
	}
	for wi := 0; wi < p.Writers; wi++ {
		wg.Add(1)
		go func(wi int) {
			defer wg.Done()
			<-start
			for j := 0; j < p.PerW; j++ {
				id := fmt.Sprintf("w%d-%d", wi, j)
				ks := stores[(wi+j)%len(stores)]
				k, err := ks.CreateKey(ctx, id)
				if err != nil {
					fail("CreateKey(%s): %v", id, err)
					return
				}
				g, err := stores[(wi+j+1)%len(stores)].GetKey(ctx, id)
				if err != nil {
					fail("GetKey(%s) right after CreateKey returned: %v", id, err)
					return
				}
				if !k.Equals(g) {
					fail("GetKey(%s) right after CreateKey returned another key", id)
					return
				}
			}
		}(wi)
	}
	close(start)
	wg.Wait()
	if len(failures) > 0 {
		tb.Fatalf("%s", failures[0])
	}
	total := p.Before + p.Writers*p.PerW
	cl := []string{"parallel", fmt.Sprintf("stores-%d", p.Stores)}
	if total > 128 {
		cl = append(cl, "beyond-cache-capacity")
	}
	return ev.Result{NonTrivial: total > 128, Classes: cl}
}

func TestC20Parallel(t *testing.T) {
	ev.Get("C20")
	ev.Check(t, "C20", genC20Par, runC20Par)
}
