//go:build verif

package conc

import (
	"bytes"
	"runtime/pprof"
	"strings"
	"sync"
	"sync/atomic"
	"testing"
	"time"

	"pgregory.net/rapid"

	"verifharness/ev"
)

// C13, engine E2: the same concurrent programs on free-running goroutines (run
// with -race: a data race makes the runtime abort the process, the driver
// attributes it to the program in the write-ahead file).
func runC13Free(tb ev.TB, p concProg) ev.Result {
	overlapped := false
	rep := p.Repeat
	if rep < 1 {
		rep = 1
	}
	if ev.Replaying() {
		rep = ev.EnvInt("VERIF_REPLAY_REPS", 40) // a replay of a schedule-dependent failure is statistical
	}
	for r := 0; r < rep; r++ {
		s := setup(tb, &p)
		s.free = true
		for _, th := range p.Threads {
			for _, op := range th {
				if op.Kind == "joinbounded" {
					s.bounded = true
				}
			}
		}
		var wg sync.WaitGroup
		start := make(chan struct{})
		var running, maxRunning int32
		type span struct{ s, e time.Time }
		spans := make([][]span, len(p.Threads))
		for ti, ops := range p.Threads {
			ti, ops := ti, ops
			wg.Add(1)
			go func() {
				defer wg.Done()
				<-start
				for oi, op := range ops {
					mut := op.Kind == "append" || op.Kind == "joinin" || op.Kind == "joinbounded" || op.Kind == "joinbad" || op.Kind == "setid" || op.Kind == "iterstream"
					t0 := time.Now()
					if mut {
						n := atomic.AddInt32(&running, 1)
						for {
							m := atomic.LoadInt32(&maxRunning)
							if n <= m || atomic.CompareAndSwapInt32(&maxRunning, m, n) {
								break
							}
						}
					}
					s.do(ti, oi, op)
					if mut {
						atomic.AddInt32(&running, -1)
						spans[ti] = append(spans[ti], span{t0, time.Now()})
					}
				}
			}()
		}
		done := make(chan struct{})
		go func() { wg.Wait(); close(done) }()
		close(start)
		select {
		case <-done:
		case <-time.After(20 * time.Second):
			var buf bytes.Buffer
			_ = pprof.Lookup("goroutine").WriteTo(&buf, 2)
			dump := buf.String()
			if strings.Contains(dump, "sync.(*RWMutex)") && strings.Contains(dump, "go-ipfs-log.(*IPFSLog)") {
				tb.Fatalf("operations on one log did not complete within 20s and goroutines are parked on the log's lock (deadlock):\n%s", trimTo(dump, 4000))
			}
			tb.Logf("inconclusive: operations did not complete within 20s")
			return ev.Result{Classes: []string{"inconclusive"}}
		}
		if atomic.LoadInt32(&maxRunning) >= 2 {
			overlapped = true
		}
		if len(s.errs) > 0 {
			tb.Fatalf("%s", s.errs[0])
		}
		final := s.finalCheck(tb)
		s.checkAppends(tb, nil, nil)
		s.checkReads(tb, final)
	}
	cl := []string{}
	if overlapped {
		cl = append(cl, "mutators-overlapped")
	}
	return ev.Result{NonTrivial: overlapped, Classes: cl}
}

func trimTo(s string, n int) string {
	if len(s) > n {
		return s[:n]
	}
	return s
}

func TestC13Free(t *testing.T) {
	ev.Get("C13") // rule text is set by TestC13Coop
	ev.Check(t, "C13", func(t *rapid.T) concProg { return genConc(t, true) }, runC13Free)
}
