//go:build verif

package conc

import (
	"fmt"
	"strings"
	"testing"

	"pgregory.net/rapid"

	"verifharness/coop"
	"verifharness/ev"
)

// C13, engine E1: cooperative scheduler over the hook points.
func runC13Coop(tb ev.TB, p concProg) ev.Result {
	s := setup(tb, &p)
	for _, th := range p.Threads {
		for _, op := range th {
			if op.Kind == "joinbounded" {
				s.bounded = true
			}
		}
	}
	sch := coop.New(p.Choices)
	sch.Name(s.log, "L")
	for i, src := range s.sources {
		sch.Name(src, fmt.Sprintf("S%d", i))
	}
	for i, b := range s.bad {
		sch.Name(b, fmt.Sprintf("B%d", i))
	}
	// logical time of each operation (step counter at start / end)
	startAt := map[[2]int][2]int{}
	endAt := map[[2]int][2]int{}
	step := func() int { return len(sch.Trace) }
	for ti, ops := range p.Threads {
		ti, ops := ti, ops
		sch.Go(fmt.Sprintf("t%d", ti), func() {
			for oi, op := range ops {
				startAt[[2]int{ti, oi}] = [2]int{step(), 0}
				s.do(ti, oi, op)
				endAt[[2]int{ti, oi}] = [2]int{step(), 0}
			}
		})
	}
	out := sch.Run()
	trace := strings.Join(tail(sch.Trace, 60), "\n  ")
	if out.Stuck != "" {
		tb.Logf("inconclusive: %s", out.Stuck)
		return ev.Result{Classes: []string{"inconclusive"}}
	}
	if out.Deadlock {
		tb.Fatalf("deadlock: no thread can make progress\n %s\ntrace:\n  %s", strings.Join(out.Blocked, "\n "), trace)
	}
	if len(out.Panics) > 0 {
		tb.Fatalf("%s\ntrace:\n  %s", out.Panics[0], trace)
	}
	if len(s.errs) > 0 {
		tb.Fatalf("%s\ntrace:\n  %s", s.errs[0], trace)
	}
	final := s.finalCheck(tb)
	s.checkAppends(tb, startAt, endAt)
	s.checkReads(tb, final)
	mut := 0
	for _, th := range p.Threads {
		for _, op := range th {
			switch op.Kind {
			case "append", "joinin", "joinbounded", "joinbad", "setid", "iterstream":
				mut++
			}
		}
	}
	cl := []string{}
	if out.InCS > 0 {
		cl = append(cl, "preempted-inside-critical-section")
	}
	if len(s.appends) >= 2 {
		cl = append(cl, "concurrent-appends")
	}
	return ev.Result{NonTrivial: mut >= 2 && out.InCS > 0, Classes: cl}
}

func tail(xs []string, n int) []string {
	if len(xs) > n {
		return xs[len(xs)-n:]
	}
	return xs
}

func TestC13Coop(t *testing.T) {
	c := ev.Get("C13")
	c.Rule = "generated concurrent programs: a generated setup history builds a shared log and 1-2 source logs; 2-4 logical threads each run 1-3 operations on the shared log from {append, merge-in of a valid source, merge-in of a source with unsigned entries, size-bounded merge, Values, Heads, GetEntries, ToSnapshot, Get/Has, Len, Iterator (bounded and unbounded; also streamed over an unbuffered channel to a consumer that appends to the log while it is being served), ToJSONLog, ToMultihash, SetIdentity, ToString}. Engine E1 (cooperative scheduler, build-tag hooks): the interleaving at every lock request/release and at points inside the critical sections is a generated choice list; deadlock is detected exactly. Engine E2 (TestC13Free, -race): the same programs on free-running goroutines, 3 repetitions each, under the race detector. Oracles: no deadlock, no panic, no data race with a frame in the library; every successful append appears once, appends lie on one chain and respect completion order (E1: logical time); every read result is duplicate-free, causally complete w.r.t. its own set, causally ordered, with heads consistent with its own values; final state == initial ∪ appends ∪ merged sources with heads == unreferenced. Non-trivial = >= 2 mutators and (E1) a preemption taken while the preempted thread held a lock / (E2) >= 2 mutators overlapping in time; distinct = distinct program."
	c.Assumptions = []string{"E1 explores interleavings at hook granularity only; lock-removal mutants are E2's job", "E2 is statistical: a data race is found only if the racing accesses happen to run concurrently; its replay re-runs the program several times", "structural clauses that assume causal closure are not asserted for programs containing a size-bounded merge"}
	ev.Check(t, "C13", func(t *rapid.T) concProg { return genConc(t, true) }, runC13Coop)
}
