//go:build verif

package conc

import (
	"bytes"
	"context"
	"fmt"
	"os"
	"runtime/pprof"
	"strings"
	"sync"
	"sync/atomic"
	"testing"
	"time"

	"github.com/ipfs/go-cid"
	"pgregory.net/rapid"

	ipfslog "berty.tech/go-ipfs-log"
	"berty.tech/go-ipfs-log/iface"

	"verifharness/coop"
	"verifharness/ev"
	"verifharness/sim"
	"verifharness/world"
)

type xop struct {
	Kind string `json:"k"` // join | append | iter (a reader iterates over Dst into a roomy channel; Src selects the bound: below / down from one of the oldest entries the log holds - which on a windowed log names predecessors the log does not hold - or none; errors are the caller's answer, not the log's business afterwards) | stream (Dst merges from Src once per entry it receives from an iterator over Src that runs on a goroutine of its own and sends on an unbuffered channel; the cooperative engine runs it as one merge)
	Dst  int    `json:"dst"`
	Src  int    `json:"src,omitempty"`
	Size *int   `json:"size,omitempty"` // join: size bound (nil: unbounded)
}

type c14Prog struct {
	Setup   sim.Prog `json:"setup"`
	Threads [][]xop  `json:"threads"`
	Choices []int    `json:"choices"`
	Repeat  int      `json:"repeat"`
	Deny    []int    `json:"deny,omitempty"` // logs whose access controller refuses everything during the concurrent phase: merges into them are refused (or find nothing to merge), appends fail
}

func (p c14Prog) denies(i int) bool {
	for _, d := range p.Deny {
		if d == i {
			return true
		}
	}
	return false
}

func genC14(t *rapid.T) c14Prog {
	cfg := sim.GenConfig{MaxReplicas: 3, MaxOps: 12, MinOps: 2, Codecs: []int{0}, AppendBias: 3, NoRebuild: true, NoSetID: true}
	p := c14Prog{Setup: sim.Gen(t, cfg)}
	n := p.Setup.Replicas
	nt := rapid.IntRange(2, 4).Draw(t, "threads")
	// one program in eight also makes size-bounded merges (logs are then windows: only the clauses the statement
	// keeps for them are asserted)
	bounded := rapid.IntRange(0, 7).Draw(t, "withBounded") == 5
	for i := 0; i < nt; i++ {
		k := rapid.IntRange(1, 3).Draw(t, "nops")
		var ops []xop
		for j := 0; j < k; j++ {
			o := xop{Kind: rapid.SampledFrom([]string{"join", "join", "append", "join", "join", "append", "stream", "iter"}).Draw(t, "kind"), Dst: rapid.IntRange(0, n-1).Draw(t, "dst")}
			if o.Kind == "iter" {
				o.Src = rapid.IntRange(0, 8).Draw(t, "iterSel")
			}
			if o.Kind == "join" || o.Kind == "stream" {
				o.Src = rapid.IntRange(0, n-1).Draw(t, "src")
				if o.Src == o.Dst {
					o.Src = (o.Dst + 1) % n
				}
				if bounded && rapid.IntRange(0, 2).Draw(t, "isBounded") == 0 {
					sz := rapid.IntRange(0, 6).Draw(t, "size")
					o.Size = &sz
				}
			}
			if os.Getenv("VERIF_C14_NOCROSS") == "1" { // search aid: merges only into log 0, other operations only on the sources
				if o.Kind == "join" {
					o.Dst, o.Src = 0, 1
				} else {
					o.Dst = 1
				}
			}
			ops = append(ops, o)
		}
		p.Threads = append(p.Threads, ops)
	}
	p.Choices = rapid.SliceOfN(rapid.IntRange(0, 63), 8, 64).Draw(t, "choices")
	p.Repeat = 3
	// one program in six: some or all of the logs refuse what they are offered (the error paths of merge and append
	// run under the same locks)
	if rapid.IntRange(0, 5).Draw(t, "withRefusals") == 4 {
		for i := 0; i < n; i++ {
			if rapid.IntRange(0, 2).Draw(t, "denies") > 0 {
				p.Deny = append(p.Deny, i)
			}
		}
	}
	// now and then the logs are replicas of one long history (more than a thousand entries each, different lengths)
	if rapid.IntRange(0, 29).Draw(t, "large") == 19 {
		for i := 0; i < n; i++ {
			p.Setup.Preload = append(p.Setup.Preload, rapid.SampledFrom([]int{1030, 1100, 1100, 1290}).Draw(t, "preload"))
		}
	}
	return p
}

type logState struct {
	step    int
	entries world.Set
	heads   world.Set
	next    map[string][]string // predecessors as named by the entry objects themselves
}

func stateOf(l *ipfslog.IPFSLog, step int) logState {
	e, h := l.VerifState()
	st := logState{step: step, entries: world.Set{}, heads: world.SetOf(world.Hashes(h)), next: map[string][]string{}}
	for _, x := range e.Slice() {
		k := x.GetHash().String()
		st.entries.Add(k)
		st.next[k] = world.CidHashes(x.GetNext())
	}
	return st
}

// structural check of a log state: heads ⊆ entries, causally closed, heads == unreferenced.
func checkStructure(w *sim.World, st logState, windowed bool) string {
	for h := range st.heads {
		if !st.entries.Has(h) {
			return fmt.Sprintf("head %s is not an entry of the log", world.Short(h))
		}
	}
	if windowed {
		return "" // a size-bounded merge leaves a window of the history: closure and the exact head set are not promised
	}
	referenced := world.Set{}
	for h := range st.entries {
		for _, n := range st.next[h] {
			referenced.Add(n)
			if !st.entries.Has(n) {
				return fmt.Sprintf("entry %s is present but its predecessor %s is not", world.Short(h), world.Short(n))
			}
		}
	}
	want := world.Set{}
	for h := range st.entries {
		if !referenced.Has(h) {
			want.Add(h)
		}
	}
	if !want.Equal(st.heads) {
		return fmt.Sprintf("heads %v but the unreferenced entries are %v", world.Shorts(st.heads.Sorted()), world.Shorts(want.Sorted()))
	}
	return ""
}

// hasBounded reports whether the program makes size-bounded merges.
// iterate is the "iter" operation: an iteration over l with the bound op.Src selects, into a channel with room for
// everything the log can hold during the case. Whether it succeeds is not the point here (a bound whose predecessors
// the log does not hold is refused); the log must go on serving merges and appends afterwards.
func iterate(l *ipfslog.IPFSLog, sel int) {
	vs := l.Values().Slice()
	opts := &ipfslog.IteratorOptions{}
	if len(vs) > 0 {
		e := vs[(sel/3)%len(vs)]
		switch sel % 3 {
		case 0:
			opts.LT = []cid.Cid{e.GetHash()}
		case 1:
			opts.LTE = []cid.Cid{e.GetHash()}
		}
	}
	ch := make(chan iface.IPFSLogEntry, len(vs)+256)
	_ = l.Iterator(opts, ch)
}

func hasBounded(p c14Prog) bool {
	for _, th := range p.Threads {
		for _, op := range th {
			if op.Size != nil {
				return true
			}
		}
	}
	return false
}

func sizeOf(op xop) int {
	if op.Size != nil {
		return *op.Size
	}
	return -1
}

// C14, cooperative engine.
func runC14Coop(tb ev.TB, p c14Prog) ev.Result { return runMultiLog("C14")(tb, p) }

// runMultiLog runs the multi-log programs; with prop == "C14" it asserts C14's clauses, with "C02" / "C03" only
// the heads-vs-entries / linearisation clauses on the quiescent final states (what a torn or shared head map
// breaks shows up there too).
func runMultiLog(prop string) func(tb ev.TB, p c14Prog) ev.Result {
	return func(tb ev.TB, p c14Prog) ev.Result { return runMultiLogImpl(tb, p, prop) }
}

func runMultiLogImpl(tb ev.TB, p c14Prog, prop string) ev.Result {
	ctx := context.Background()
	w := sim.Run(tb, &p.Setup, func(tb ev.TB, w *sim.World, info *sim.OpInfo) {
		switch info.Op.Kind {
		case "append", "join":
			sim.MustOK(tb, info)
		}
	})
	n := len(w.Reps)
	if prop != "C14" && len(p.Deny) > 0 {
		return ev.Result{Classes: []string{"not-this-property(refusing logs)"}}
	}
	for i, r := range w.Reps {
		r.Deny(p.denies(i))
	}
	windowed := hasBounded(p)
	logs := make([]*ipfslog.IPFSLog, n)
	index := map[*ipfslog.IPFSLog]int{}
	for i, r := range w.Reps {
		logs[i] = r.Log
		index[r.Log] = i
	}
	sch := coop.New(p.Choices)
	for i, l := range logs {
		sch.Name(l, fmt.Sprintf("L%d", i))
	}
	// history of committed states per log
	hist := make([][]logState, n)
	for i, l := range logs {
		hist[i] = []logState{stateOf(l, 0)}
	}
	type joinCtx struct {
		active   bool
		dst, src int
		size     int
		callStep int
		before   *logState
	}
	cur := make([]joinCtx, len(p.Threads))
	var failures []string
	srcMutatedDuringJoin, crossOverlap := false, false
	var mu sync.Mutex
	var errs []string
	sch.OnEvent = func(e coop.Event) {
		li, ok := index[e.Log]
		if !ok {
			return
		}
		step := len(sch.Trace)
		jc := &cur[e.Thread]
		switch e.Point {
		case "join.locked":
			if jc.active && jc.dst == li {
				st := stateOf(e.Log, step)
				jc.before = &st
			}
		case "unlock.w":
			st := stateOf(e.Log, step)
			hist[li] = append(hist[li], st)
			if msg := checkStructure(w, st, windowed); msg != "" {
				failures = append(failures, fmt.Sprintf("after T%d released L%d: %s", e.Thread, li, msg))
			}
			// another thread's join reading this log as source is in flight: the source was mutated during the merge
			for ti := range cur {
				if ti != e.Thread && cur[ti].active && cur[ti].src == li {
					srcMutatedDuringJoin = true
				}
				if ti != e.Thread && cur[ti].active && jc.active && cur[ti].src == jc.dst && cur[ti].dst == jc.src {
					crossOverlap = true
				}
			}
			if jc.active && jc.dst == li && jc.before != nil && p.denies(li) && jc.size < 0 {
				if !st.entries.Equal(jc.before.entries) || !st.heads.Equal(jc.before.heads) {
					failures = append(failures, fmt.Sprintf("T%d: L%d refuses everything, yet L%d.Join(L%d) changed it (%d -> %d entries)", e.Thread, li, jc.dst, jc.src, len(jc.before.entries), len(st.entries)))
				}
			} else if jc.active && jc.dst == li && jc.before != nil && jc.size < 0 {
				// result must be before ∪ S for some state S the source really had between call and return. When
				// the program makes size-bounded merges logs are windows of their history and the comparison follows
				// the merge's own candidate rule: everything reachable from S's heads through entries the
				// destination did not hold must be there, and nothing beyond before ∪ S.
				okUnion := false
				var tried []string
				matches := func(s logState) bool {
					if !windowed {
						u := jc.before.entries.Clone()
						u.Union(s.entries)
						return u.Equal(st.entries)
					}
					for h := range st.entries {
						if !jc.before.entries.Has(h) && !s.entries.Has(h) {
							return false
						}
					}
					for h := range jc.before.entries {
						if !st.entries.Has(h) {
							return false
						}
					}
					stack := s.heads.Sorted()
					seen := world.Set{}
					for len(stack) > 0 {
						h := stack[len(stack)-1]
						stack = stack[:len(stack)-1]
						if seen.Has(h) || !s.entries.Has(h) || jc.before.entries.Has(h) {
							continue
						}
						seen.Add(h)
						if !st.entries.Has(h) {
							return false
						}
						stack = append(stack, s.next[h]...)
					}
					return true
				}
				for _, s := range hist[jc.src] {
					if s.step < jc.callStep {
						// only the last state at or before the call counts
						continue
					}
					tried = append(tried, fmt.Sprintf("S@%d(%d entries)", s.step, len(s.entries)))
					if matches(s) {
						okUnion = true
					}
				}
				// the state current at the call
				for k := len(hist[jc.src]) - 1; k >= 0; k-- {
					if hist[jc.src][k].step <= jc.callStep {
						tried = append(tried, fmt.Sprintf("S@%d(%d entries)", hist[jc.src][k].step, len(hist[jc.src][k].entries)))
						if matches(hist[jc.src][k]) {
							okUnion = true
						}
						break
					}
				}
				if !okUnion {
					failures = append(failures, fmt.Sprintf("T%d: L%d.Join(L%d) produced %d entries from %d; not the union with any state the source had during the call (tried %v)", e.Thread, jc.dst, jc.src, len(st.entries), len(jc.before.entries), tried))
				}
			}
		}
	}
	for ti, ops := range p.Threads {
		ti, ops := ti, ops
		sch.Go(fmt.Sprintf("t%d", ti), func() {
			for oi, op := range ops {
				d := logs[op.Dst%n]
				switch op.Kind {
				case "append":
					e, err := d.Append(ctx, []byte(fmt.Sprintf("x%d-%d", ti, oi)), nil)
					if err != nil {
						if !p.denies(op.Dst % n) {
							mu.Lock()
							errs = append(errs, fmt.Sprintf("T%d append failed: %v", ti, err))
							mu.Unlock()
						}
						continue
					}
					w.Reg.Record(e)
				case "iter":
					iterate(d, op.Src)
				case "join", "stream":
					si := op.Src % n
					if si == op.Dst%n {
						si = (si + 1) % n
					}
					cur[ti] = joinCtx{active: true, dst: op.Dst % n, src: si, size: sizeOf(op), callStep: len(sch.Trace)}
					_, err := d.Join(logs[si], sizeOf(op))
					cur[ti].active = false
					if err != nil && !p.denies(op.Dst%n) {
						mu.Lock()
						errs = append(errs, fmt.Sprintf("T%d join failed: %v", ti, err))
						mu.Unlock()
					}
				}
			}
		})
	}
	out := sch.Run()
	trace := strings.Join(tail(sch.Trace, 70), "\n  ")
	if out.Stuck != "" {
		return ev.Result{Classes: []string{"inconclusive"}}
	}
	if prop != "C14" {
		if windowed {
			return ev.Result{Classes: []string{"not-this-property(size-bounded merges)"}}
		}
		if out.Deadlock || len(out.Panics) > 0 {
			return ev.Result{Classes: []string{"not-this-property(deadlock/panic: C14)"}}
		}
		if prop == "C01" {
			// after the concurrent phase the replicas exchange everything (sequentially, twice round): they
			// must then expose the same entries, heads and - under a strict total order - values
			for round := 0; round < 2; round++ {
				for i := range logs {
					for j := range logs {
						if i != j {
							if _, err := logs[i].Join(logs[j], -1); err != nil {
								tb.Fatalf("exchange: L%d.Join(L%d): %v\ntrace:\n  %s", i, j, err, trace)
							}
						}
					}
				}
			}
			base := world.SetOf(world.Hashes(logs[0].GetEntries()))
			baseHeads := world.SetOf(world.Hashes(logs[0].Heads()))
			baseVals := world.Hashes(logs[0].Values())
			strictAll := true
			seenClock := map[string]bool{}
			for _, e := range logs[0].GetEntries().Slice() {
				k := fmt.Sprintf("%x/%d", e.GetClock().GetID(), e.GetClock().GetTime())
				if seenClock[k] {
					strictAll = false
				}
				seenClock[k] = true
			}
			for i, l := range logs[1:] {
				if got := world.SetOf(world.Hashes(l.GetEntries())); !got.Equal(base) {
					tb.Fatalf("after a complete exchange L0 holds %d entries and L%d holds %d\ntrace:\n  %s", len(base), i+1, len(got), trace)
				}
				if got := world.SetOf(world.Hashes(l.Heads())); !got.Equal(baseHeads) {
					tb.Fatalf("after a complete exchange L0 has heads %v and L%d has %v\ntrace:\n  %s", world.Shorts(baseHeads.Sorted()), i+1, world.Shorts(got.Sorted()), trace)
				}
				if vals := world.Hashes(l.Values()); (strictAll || w.Order == world.OrderHash) && !world.EqualStrings(vals, baseVals) {
					tb.Fatalf("after a complete exchange L0 and L%d linearise differently (%d vs %d values)\ntrace:\n  %s", i+1, len(baseVals), len(vals), trace)
				}
			}
			if len(baseVals) != len(base) {
				tb.Fatalf("after a complete exchange L0 holds %d entries but linearises %d\ntrace:\n  %s", len(base), len(baseVals), trace)
			}
			return ev.Result{NonTrivial: srcMutatedDuringJoin || crossOverlap, Classes: []string{"multi-log-engine"}}
		}
		for i, l := range logs {
			ents, heads := l.VerifState()
			if prop == "C05" {
				// every entry the log holds is in its linearised view (nothing appended or merged got lost)
				vals := world.SetOf(world.Hashes(l.Values()))
				for _, e := range ents.Slice() {
					if !vals.Has(e.GetHash().String()) {
						tb.Fatalf("L%d holds entry %s which is missing from its linearised view\ntrace:\n  %s", i, world.Short(e.GetHash().String()), trace)
					}
				}
				for h := range hist[i][0].entries {
					if _, ok := ents.Get(h); !ok {
						tb.Fatalf("L%d lost entry %s it held at the start\ntrace:\n  %s", i, world.Short(h), trace)
					}
				}
				continue
			}
			if prop == "C02" {
				if msg := headsVsEntries(ents, heads); msg != "" {
					tb.Fatalf("final state of L%d: %s\ntrace:\n  %s", i, msg, trace)
				}
			} else {
				vals := world.Hashes(l.Values())
				set := world.SetOf(world.Hashes(ents))
				sh := &shared{w: w}
				if msg := linearisationVsSet(sh, vals, set); msg != "" {
					tb.Fatalf("final Values() of L%d: %s\ntrace:\n  %s", i, msg, trace)
				}
			}
		}
		return ev.Result{NonTrivial: srcMutatedDuringJoin || crossOverlap, Classes: []string{"multi-log-engine"}}
	}
	if out.Deadlock {
		tb.Fatalf("deadlock: merges cannot complete\n %s\ntrace:\n  %s", strings.Join(out.Blocked, "\n "), trace)
	}
	if len(out.Panics) > 0 {
		tb.Fatalf("%s\ntrace:\n  %s", out.Panics[0], trace)
	}
	if len(errs) > 0 {
		tb.Fatalf("%s\ntrace:\n  %s", errs[0], trace)
	}
	if len(failures) > 0 {
		tb.Fatalf("%s\ntrace:\n  %s", failures[0], trace)
	}
	// final: every log is structurally sound
	for i, l := range logs {
		if msg := checkStructure(w, stateOf(l, 0), windowed); msg != "" {
			tb.Fatalf("final state of L%d: %s", i, msg)
		}
	}
	cl := []string{}
	if len(p.Setup.Preload) > 0 {
		cl = append(cl, "large-logs")
	}
	if windowed {
		cl = append(cl, "with-size-bounded-merges")
	}
	if len(p.Deny) > 0 {
		cl = append(cl, "with-refusing-logs")
	}
	if srcMutatedDuringJoin {
		cl = append(cl, "source-mutated-during-merge")
	}
	if crossOverlap {
		cl = append(cl, "cross-merges-overlapped")
	}
	return ev.Result{NonTrivial: srcMutatedDuringJoin || crossOverlap, Classes: cl}
}

func TestC02Multi(t *testing.T) {
	ev.Get("C02")
	ev.Check(t, "C02", genC14, runMultiLog("C02"))
}

func TestC01Multi(t *testing.T) {
	ev.Get("C01")
	ev.Check(t, "C01", genC14, runMultiLog("C01"))
}

func TestC05Multi(t *testing.T) {
	ev.Get("C05")
	ev.Check(t, "C05", genC14, runMultiLog("C05"))
}

func TestC03Multi(t *testing.T) {
	ev.Get("C03")
	ev.Check(t, "C03", genC14, runMultiLog("C03"))
}

func TestC14Coop(t *testing.T) {
	c := ev.Get("C14")
	c.Rule = "generated concurrent programs over 2-3 logs built by a generated setup history (in a few percent of the cases each log additionally starts as a replica of one long history of 1030-1290 entries): 2-4 logical threads each run 1-3 operations from {X.Join(Y), X.Append} with generated X, Y (one program in eight also makes size-bounded merges X.Join(Y, n): for those programs: deadlock freedom, no panic, 'every head is an entry', and for their unbounded merges the union clause in the form of the merge's own candidate rule, since logs are windows then); one program in six lets some or all of the logs refuse whatever they are offered (denying access controller): merges into them fail or find nothing, appends fail, and a refused unbounded merge must leave entries and heads as they were - the error paths run under the same locks (so merges from a log that is concurrently appended to, merged into, or merging back). Engine E1 (cooperative scheduler): every lock request/release of every log and the points join.locked / join.afterValidate / join.beforeHeads are scheduling points, the interleaving is a generated choice list, deadlock is detected exactly. At every write-unlock of a log its state (read without locks) must have heads ⊆ entries, be causally closed and have heads == unreferenced; for a Join the result must equal (destination at lock time) ∪ S for some state S the source log had between the call and the return (states recorded at every write-unlock). Engine E2 (TestC14Free, -race): the same programs on free goroutines - here a 'stream' operation makes X merge from Y once per entry X receives from an iterator over Y that runs on its own goroutine and sends on an unbuffered channel (E1 runs it as one merge) - with a 20 s watchdog whose expiry is a violation only if the goroutine dump shows the log locks held. Non-trivial = the source was mutated by another thread while a merge from it was in flight, or two merges in opposite directions overlapped; distinct = distinct program."
	c.Assumptions = []string{"interleavings are explored at hook granularity", "E2's deadlock verdict needs the goroutine dump to show goroutines parked on the logs' RWMutex"}
	ev.Check(t, "C14", genC14, runC14Coop)
}

// C14, free-running engine.
func runC14Free(tb ev.TB, p c14Prog) ev.Result {
	ctx := context.Background()
	rep := p.Repeat
	if rep < 1 {
		rep = 1
	}
	if ev.Replaying() {
		rep = ev.EnvInt("VERIF_REPLAY_REPS", 40)
	}
	var running, overlap int32
	var streamed atomic.Bool
	for r := 0; r < rep; r++ {
		w := sim.Run(tb, &p.Setup, nil)
		n := len(w.Reps)
		for i, r := range w.Reps {
			r.Deny(p.denies(i))
		}
		windowed := hasBounded(p)
		var wg sync.WaitGroup
		start := make(chan struct{})
		var mu sync.Mutex
		var errs []string
		for ti, ops := range p.Threads {
			ti, ops := ti, ops
			wg.Add(1)
			go func() {
				defer wg.Done()
				<-start
				for oi, op := range ops {
					if nr := atomic.AddInt32(&running, 1); nr >= 2 {
						atomic.StoreInt32(&overlap, 1)
					}
					d := w.Reps[op.Dst%n].Log
					if op.Kind == "append" {
						e, err := d.Append(ctx, []byte(fmt.Sprintf("x%d-%d", ti, oi)), nil)
						atomic.AddInt32(&running, -1)
						if err == nil {
							w.Reg.Record(e)
						} else if !p.denies(op.Dst % n) {
							mu.Lock()
							errs = append(errs, err.Error())
							mu.Unlock()
						}
						continue
					}
					if op.Kind == "iter" {
						iterate(d, op.Src)
						atomic.AddInt32(&running, -1)
						continue
					}
					si := op.Src % n
					if si == op.Dst%n {
						si = (si + 1) % n
					}
					if op.Kind == "stream" {
						// a consumer that merges from the log it is being streamed: the iterator runs on its own
						// goroutine and hands over one entry at a time
						src := w.Reps[si].Log
						ch := make(chan iface.IPFSLogEntry)
						go func() { _ = src.Iterator(&ipfslog.IteratorOptions{}, ch) }()
						for range ch {
							if _, err := d.Join(src, -1); err != nil && !p.denies(op.Dst%n) {
								mu.Lock()
								errs = append(errs, fmt.Sprintf("join failed: %v", err))
								mu.Unlock()
							}
						}
						atomic.AddInt32(&running, -1)
						streamed.Store(true)
						continue
					}
					_, err := d.Join(w.Reps[si].Log, sizeOf(op))
					atomic.AddInt32(&running, -1)
					if err != nil && !p.denies(op.Dst%n) {
						mu.Lock()
						errs = append(errs, fmt.Sprintf("join failed: %v", err))
						mu.Unlock()
					}
				}
			}()
		}
		done := make(chan struct{})
		go func() { wg.Wait(); close(done) }()
		close(start)
		select {
		case <-done:
		case <-time.After(20 * time.Second):
			var buf bytes.Buffer
			_ = pprof.Lookup("goroutine").WriteTo(&buf, 2)
			dump := buf.String()
			if strings.Contains(dump, "sync.(*RWMutex)") && strings.Contains(dump, "go-ipfs-log.(*IPFSLog).Join") {
				tb.Fatalf("merges did not complete within 20s; goroutines are parked on the logs' locks (deadlock):\n%s", trimTo(dump, 5000))
			}
			return ev.Result{Classes: []string{"inconclusive"}}
		}
		if len(errs) > 0 {
			tb.Fatalf("%s", errs[0])
		}
		for i, rp := range w.Reps {
			if msg := checkStructure(w, stateOf(rp.Log, 0), windowed); msg != "" {
				tb.Fatalf("final state of L%d: %s", i, msg)
			}
		}
	}
	cl := []string{"free-running"}
	if len(p.Setup.Preload) > 0 {
		cl = append(cl, "large-logs")
	}
	if atomic.LoadInt32(&overlap) == 1 {
		cl = append(cl, "operations-overlapped")
	}
	if streamed.Load() {
		cl = append(cl, "merges-from-a-log-while-it-is-streamed")
	}
	return ev.Result{NonTrivial: atomic.LoadInt32(&overlap) == 1, Classes: cl}
}

func TestC14Free(t *testing.T) {
	ev.Get("C14")
	ev.Check(t, "C14", genC14, runC14Free)
}
