//go:build verif

package conc

import (
	"bytes"
	"fmt"
	"strings"
	"testing"

	"pgregory.net/rapid"

	ipfslog "berty.tech/go-ipfs-log"
	"berty.tech/go-ipfs-log/iface"

	"verifharness/coop"
	"verifharness/ev"
	"verifharness/world"
)

// The structural properties C02, C03 and C04 are stated over sequences of operations. A log is normally
// shared between goroutines, and a change can break them only when operations interleave (a stale head
// set used by Append, a head map mutated in place, a lock dropped in the middle of a commit). These tests
// run generated concurrent programs under the cooperative scheduler and assert ONLY the clauses of the one
// property, on the states the log passes through and on the quiescent final state; deadlocks, panics and
// the other clauses are C13's business and are not reported here.

type commitView struct {
	heads   world.Set
	maxTime int
	n       int
}

func runSeqPropConc(prop string) func(tb ev.TB, p concProg) ev.Result {
	return func(tb ev.TB, p concProg) ev.Result {
		s := setup(tb, &p)
		sch := coop.New(p.Choices)
		sch.Name(s.log, "L")
		for i, src := range s.sources {
			sch.Name(src, fmt.Sprintf("S%d", i))
		}
		// C04: what the log looked like when an append committed / released the lock
		atCommit := make([]*commitView, len(p.Threads))
		afterUnlock := make([]world.Set, len(p.Threads))
		inAppend := make([]bool, len(p.Threads))
		var failures []string
		lastSet := s.initial.Clone()
		view := func() *commitView {
			ents, heads := s.log.VerifState()
			v := &commitView{heads: world.SetOf(world.Hashes(heads)), n: ents.Len()}
			for _, e := range ents.Slice() {
				if t := e.GetClock().GetTime(); t > v.maxTime {
					v.maxTime = t
				}
			}
			return v
		}
		sch.OnEvent = func(e coop.Event) {
			if e.Log != s.log {
				return
			}
			switch e.Point {
			case "append.beforeCommit":
				atCommit[e.Thread] = view()
			case "unlock.w":
				if inAppend[e.Thread] {
					_, heads := s.log.VerifState()
					afterUnlock[e.Thread] = world.SetOf(world.Hashes(heads))
				}
				if prop == "C05" {
					ents, _ := s.log.VerifState()
					now := world.SetOf(world.Hashes(ents))
					for h := range lastSet {
						if !now.Has(h) {
							failures = append(failures, fmt.Sprintf("after T%d released the log: entry %s, held before, is gone", e.Thread, world.Short(h)))
							break
						}
					}
					lastSet = now
				}
				if prop == "C02" {
					ents, heads := s.log.VerifState()
					if msg := headsVsEntries(ents, heads); msg != "" {
						failures = append(failures, fmt.Sprintf("after T%d released the log: %s", e.Thread, msg))
					}
				}
			}
		}
		s.onAppendStart = func(tid int) { inAppend[tid] = true; atCommit[tid] = nil; afterUnlock[tid] = nil }
		s.onAppend = func(tid int, e iface.IPFSLogEntry) {
			inAppend[tid] = false
			if prop != "C04" {
				return
			}
			cv, au := atCommit[tid], afterUnlock[tid]
			if cv == nil {
				return
			}
			next := world.SetOf(world.CidHashes(e.GetNext()))
			if !next.Equal(cv.heads) {
				failures = append(failures, fmt.Sprintf("T%d: appended entry names %v as predecessors but the log's heads when it was committed were %v", tid, world.Shorts(next.Sorted()), world.Shorts(cv.heads.Sorted())))
			}
			if cv.n > 0 && e.GetClock().GetTime() <= cv.maxTime {
				failures = append(failures, fmt.Sprintf("T%d: appended entry has time %d, the log already held time %d", tid, e.GetClock().GetTime(), cv.maxTime))
			}
			if !bytes.Equal(e.GetClock().GetID(), e.GetKey()) {
				failures = append(failures, fmt.Sprintf("T%d: clock id differs from the writer's key", tid))
			}
			if au != nil && !(len(au) == 1 && au.Has(e.GetHash().String())) {
				failures = append(failures, fmt.Sprintf("T%d: after the append released the log its heads were %v, not only the new entry", tid, world.Shorts(au.Sorted())))
			}
		}
		for ti, ops := range p.Threads {
			ti, ops := ti, ops
			sch.Go(fmt.Sprintf("t%d", ti), func() {
				for oi, op := range ops {
					s.do(ti, oi, op)
				}
			})
		}
		out := sch.Run()
		if out.Stuck != "" || out.Deadlock || len(out.Panics) > 0 {
			return ev.Result{Classes: []string{"not-this-property(deadlock/panic: C13)"}}
		}
		trace := strings.Join(tail(sch.Trace, 50), "\n  ")
		if len(failures) > 0 {
			tb.Fatalf("%s\ntrace:\n  %s", failures[0], trace)
		}
		ents, heads := s.log.VerifState()
		switch prop {
		case "C02":
			if msg := headsVsEntries(ents, heads); msg != "" {
				tb.Fatalf("final state: %s\ntrace:\n  %s", msg, trace)
			}
			for _, r := range s.results {
				if r.kind == "snapshot" {
					set := world.SetOf(r.seq)
					hs := world.SetOf(r.heads)
					for h := range hs {
						if !set.Has(h) {
							tb.Fatalf("T%d ToSnapshot: head %s is not among its values\ntrace:\n  %s", r.thread, world.Short(h), trace)
						}
					}
				}
			}
		case "C05":
			// nothing that was ever in the log or in one of its linearised views is missing from the final view, and
			// every earlier view is a subsequence of the final one (strict total order) or at least contained in it
			vals := world.Hashes(s.log.Values())
			pos := map[string]int{}
			for i, h := range vals {
				pos[h] = i
			}
			for h := range lastSet {
				if _, ok := pos[h]; !ok {
					tb.Fatalf("entry %s is held by the log but missing from its final linearised view\ntrace:\n  %s", world.Short(h), trace)
				}
			}
			for _, a := range s.appends {
				if _, ok := pos[a.hash]; !ok {
					tb.Fatalf("entry %s appended by T%d is missing from the final linearised view\ntrace:\n  %s", world.Short(a.hash), a.thread, trace)
				}
			}
			strict := s.w.Reg.StrictTotalOn(s.w.Order, world.SetOf(vals))
			for _, r := range s.results {
				if r.kind != "values" && r.kind != "snapshot" {
					continue
				}
				last := -1
				for _, h := range r.seq {
					p, ok := pos[h]
					if !ok {
						tb.Fatalf("T%d %s saw entry %s which the final linearised view no longer contains\ntrace:\n  %s", r.thread, r.kind, world.Short(h), trace)
					}
					if strict && p < last {
						tb.Fatalf("T%d %s: an earlier linearised view is not a subsequence of the final one (at %s)\ntrace:\n  %s", r.thread, r.kind, world.Short(h), trace)
					}
					last = p
				}
			}
			if s.log.Len() < len(lastSet) {
				tb.Fatalf("Len() %d below the number of entries held %d", s.log.Len(), len(lastSet))
			}
		case "C03":
			vals := world.Hashes(s.log.Values())
			set := world.SetOf(world.Hashes(ents))
			if msg := linearisationVsSet(s, vals, set); msg != "" {
				tb.Fatalf("final Values(): %s\ntrace:\n  %s", msg, trace)
			}
			for _, r := range s.results {
				if r.kind == "values" || r.kind == "snapshot" {
					if msg := linearisationVsSet(s, r.seq, world.SetOf(r.seq)); msg != "" {
						tb.Fatalf("T%d %s: %s\ntrace:\n  %s", r.thread, r.kind, msg, trace)
					}
				}
			}
		}
		mut := 0
		for _, th := range p.Threads {
			for _, op := range th {
				switch op.Kind {
				case "append", "joinin", "joinbad", "setid", "iterstream":
					mut++
				}
			}
		}
		return ev.Result{NonTrivial: mut >= 2 && out.InCS > 0, Classes: []string{"concurrent-engine"}}
	}
}

// headsVsEntries: heads ⊆ entries, non-empty iff the log is, heads == entries nothing in the log names.
func headsVsEntries(ents, heads iface.IPFSLogOrderedEntries) string {
	set := world.Set{}
	referenced := world.Set{}
	for _, e := range ents.Slice() {
		set.Add(e.GetHash().String())
		for _, n := range e.GetNext() {
			referenced.Add(n.String())
		}
	}
	hs := world.SetOf(world.Hashes(heads))
	for h := range hs {
		if !set.Has(h) {
			return fmt.Sprintf("head %s is not an entry of the log", world.Short(h))
		}
	}
	want := world.Set{}
	for h := range set {
		if !referenced.Has(h) {
			want.Add(h)
		}
	}
	if !want.Equal(hs) {
		return fmt.Sprintf("heads %v but the entries nothing in the log points to are %v", world.Shorts(hs.Sorted()), world.Shorts(want.Sorted()))
	}
	return ""
}

// linearisationVsSet: each entry of the set exactly once, after its predecessors, sorted (strict-total case).
func linearisationVsSet(s *shared, seq []string, set world.Set) string {
	reg := s.w.Reg
	pos := map[string]int{}
	for i, h := range seq {
		if _, dup := pos[h]; dup {
			return fmt.Sprintf("entry %s twice", world.Short(h))
		}
		pos[h] = i
	}
	if !world.SetOf(seq).Equal(set) {
		return fmt.Sprintf("%d entries in the linearised view, %d in the log", len(seq), len(set))
	}
	for _, h := range seq {
		in := reg.Get(h)
		if in == nil {
			continue
		}
		for _, n := range in.Next {
			if pn, ok := pos[n]; ok && pn > pos[h] {
				return fmt.Sprintf("%s placed before its predecessor %s", world.Short(h), world.Short(n))
			}
		}
	}
	known := true
	for h := range set {
		if reg.Get(h) == nil {
			known = false
		}
	}
	if known && reg.StrictTotalOn(s.w.Order, set) {
		if want := reg.RefSort(s.w.Order, set); !world.EqualStrings(seq, want) {
			return "not sorted by the configured ordering"
		}
	}
	return ""
}

func genSeqConc(t *rapid.T) concProg {
	p := genConc(t, false)
	// no size-bounded merges: the structural clauses are stated for appends and unbounded merges
	return p
}

func TestC02Conc(t *testing.T) {
	ev.Get("C02")
	ev.Check(t, "C02", genSeqConc, runSeqPropConc("C02"))
}

func TestC03Conc(t *testing.T) {
	ev.Get("C03")
	ev.Check(t, "C03", genSeqConc, runSeqPropConc("C03"))
}

func TestC05Conc(t *testing.T) {
	ev.Get("C05")
	ev.Check(t, "C05", genSeqConc, runSeqPropConc("C05"))
}

func TestC04Conc(t *testing.T) {
	ev.Get("C04")
	ev.Check(t, "C04", genSeqConc, runSeqPropConc("C04"))
}

var _ = ipfslog.NewLog
