//go:build verif

package conc

import (
	"context"
	"fmt"
	"sort"
	"sync"
	"testing"

	"github.com/ipfs/go-cid"
	"pgregory.net/rapid"

	ipfslog "berty.tech/go-ipfs-log"
	"berty.tech/go-ipfs-log/entry"
	"berty.tech/go-ipfs-log/iface"

	"verifharness/ev"
	"verifharness/sim"
	"verifharness/world"
)

func TestMain(m *testing.M) { ev.Main(m) }

type cop struct {
	Kind string `json:"k"` // append | joinin | joinbad | joinbounded | values | heads | entries | snapshot | gethas | len | iterator | jsonlog | publish | setid | tostring
	Arg  int    `json:"a,omitempty"`
	Arg2 int    `json:"b,omitempty"`
}

type concProg struct {
	Setup   sim.Prog `json:"setup"`   // replica 0 becomes the shared log; the others are sources
	Threads [][]cop  `json:"threads"` // operations of each logical thread, all on the shared log
	Choices []int    `json:"choices"` // schedule (cooperative engine)
	Repeat  int      `json:"repeat"`  // free-running engine: repetitions
}

var readKinds = []string{"values", "heads", "entries", "snapshot", "gethas", "len", "iterator", "jsonlog", "publish", "tostring"}

func genConc(t *rapid.T, bounded bool) concProg {
	cfg := sim.GenConfig{MaxReplicas: 3, MaxOps: 14, MinOps: 2, Codecs: []int{0}, AppendBias: 2, NoRebuild: true, NoSetID: true}
	p := concProg{Setup: sim.Gen(t, cfg)}
	nt := rapid.IntRange(2, 4).Draw(t, "threads")
	kinds := []string{"append", "append", "append", "joinin", "joinin", "joinbad", "values", "heads", "entries", "snapshot", "gethas", "len", "iterator", "iterstream", "jsonlog", "publish", "setid", "tostring"}
	if bounded {
		kinds = append(kinds, "joinbounded")
	}
	for i := 0; i < nt; i++ {
		n := rapid.IntRange(1, 3).Draw(t, "nops")
		var ops []cop
		for j := 0; j < n; j++ {
			ops = append(ops, cop{Kind: rapid.SampledFrom(kinds).Draw(t, "kind"), Arg: rapid.IntRange(0, 63).Draw(t, "arg"), Arg2: rapid.IntRange(0, 63).Draw(t, "arg2")})
		}
		p.Threads = append(p.Threads, ops)
	}
	p.Choices = rapid.SliceOfN(rapid.IntRange(0, 63), 8, 64).Draw(t, "choices")
	p.Repeat = 3
	return p
}

// shared is the state of one execution of a concurrent program.
type shared struct {
	w       *sim.World
	log     *ipfslog.IPFSLog
	initial world.Set
	sources []*ipfslog.IPFSLog // valid sources (other replicas)
	srcSets []world.Set
	bad     []*ipfslog.IPFSLog // sources containing an unsigned entry
	mu      sync.Mutex
	appends []appendRec
	joined  world.Set // union of successfully joined source sets
	results []readRec
	bounded bool
	free    bool // free-running engine: goroutines outside the program's threads may be started
	errs    []string
	// optional callbacks around appends (property-specific engines)
	onAppendStart func(tid int)
	onAppend      func(tid int, e iface.IPFSLogEntry)
}

type appendRec struct {
	thread int
	op     int
	hash   string
	next   []string
}

type readRec struct {
	thread int
	op     int
	kind   string
	set    []string // set-like results
	seq    []string // ordered results (values / iterator)
	heads  []string
}

func setup(tb ev.TB, p *concProg) *shared {
	w := sim.Run(tb, &p.Setup, func(tb ev.TB, w *sim.World, info *sim.OpInfo) {
		switch info.Op.Kind {
		case "append", "join":
			sim.MustOK(tb, info)
		}
	})
	s := &shared{w: w, log: w.Reps[0].Log, initial: w.Reps[0].Model.Clone(), joined: world.Set{}}
	for i := 1; i < len(w.Reps); i++ {
		s.sources = append(s.sources, w.Reps[i].Log)
		s.srcSets = append(s.srcSets, w.Reps[i].Model.Clone())
		// a corrupted twin of the source: the oldest entry loses its signature
		es := w.Reps[i].Log.GetEntries().Slice()
		if len(es) > 0 {
			var bad []iface.IPFSLogEntry
			for k, e := range es {
				if k == 0 || k == len(es)/2 {
					c := e.Copy()
					c.SetSig(nil)
					bad = append(bad, c)
				} else {
					bad = append(bad, e)
				}
			}
			bl, err := world.NewLog(w.Store.API(), w.Reps[i].Writer, sim.LogID, w.Order, w.IO, &ipfslog.LogOptions{Entries: entry.NewOrderedMapFromEntries(bad)})
			if err == nil {
				s.bad = append(s.bad, bl)
			}
		}
	}
	return s
}

func (s *shared) fail(format string, args ...any) {
	s.mu.Lock()
	s.errs = append(s.errs, fmt.Sprintf(format, args...))
	s.mu.Unlock()
}

// do executes one operation of a thread on the shared log and records what it observed.
func (s *shared) do(tid, oi int, op cop) {
	ctx := context.Background()
	l := s.log
	rec := func(r readRec) {
		r.thread, r.op, r.kind = tid, oi, op.Kind
		s.mu.Lock()
		s.results = append(s.results, r)
		s.mu.Unlock()
	}
	switch op.Kind {
	case "append":
		if s.onAppendStart != nil {
			s.onAppendStart(tid)
		}
		e, err := l.Append(ctx, []byte(fmt.Sprintf("t%d-%d", tid, oi)), &ipfslog.AppendOptions{PointerCount: []int{0, 1, 2, 4, 8}[op.Arg%5]})
		if err != nil {
			s.fail("T%d op %d: append failed: %v", tid, oi, err)
			return
		}
		s.w.Reg.Record(e)
		if s.onAppend != nil {
			s.onAppend(tid, e)
		}
		s.mu.Lock()
		s.appends = append(s.appends, appendRec{thread: tid, op: oi, hash: e.GetHash().String(), next: world.CidHashes(e.GetNext())})
		s.mu.Unlock()
	case "joinin", "joinbounded":
		if len(s.sources) == 0 {
			return
		}
		i := op.Arg % len(s.sources)
		size := -1
		if op.Kind == "joinbounded" {
			size = op.Arg2 % 8
		}
		if _, err := l.Join(s.sources[i], size); err != nil {
			s.fail("T%d op %d: join of a valid log failed: %v", tid, oi, err)
			return
		}
		s.mu.Lock()
		s.joined.Union(s.srcSets[i])
		s.mu.Unlock()
	case "joinbad":
		if len(s.bad) == 0 {
			return
		}
		src := s.bad[op.Arg%len(s.bad)]
		if _, err := l.Join(src, -1); err == nil {
			// legal only if the unsigned entries were already held (not candidates)
			held := true
			for _, e := range src.GetEntries().Slice() {
				if len(e.GetSig()) == 0 {
					if _, ok := l.Get(e.GetHash()); !ok {
						held = false
					}
				}
			}
			if held || s.bounded {
				// every unsigned entry was already held, so the remaining candidates were valid: a legitimate merge
				srcSet := world.SetOf(world.Hashes(src.GetEntries())) // hooked call: never under s.mu
				s.mu.Lock()
				s.joined.Union(srcSet)
				s.mu.Unlock()
			}
			if !held && !s.bounded { // after a size-bounded merge the log is not causally closed and the walk may never reach the unsigned entry
				s.fail("T%d op %d: join of a log with an unsigned candidate succeeded", tid, oi)
			}
		}
	case "values":
		rec(readRec{seq: world.Hashes(l.Values())})
	case "heads":
		rec(readRec{heads: world.Hashes(l.Heads())})
	case "entries":
		rec(readRec{set: world.Hashes(l.GetEntries())})
	case "snapshot":
		sn := l.ToSnapshot()
		rec(readRec{heads: world.CidHashes(sn.Heads), seq: world.SliceHashes(sn.Values)})
	case "gethas":
		// everything held initially stays retrievable (unless a size-bounded merge may drop it)
		for h := range s.initial {
			if s.bounded {
				c, _ := cid.Decode(h)
				_ = l.Has(c)
				_, _ = l.Get(c)
				break
			}
			c, _ := cid.Decode(h)
			if !l.Has(c) {
				s.fail("T%d op %d: Has(%s) false for an entry held from the start", tid, oi, world.Short(h))
			}
			if e, ok := l.Get(c); !ok || e.GetHash().String() != h {
				s.fail("T%d op %d: Get(%s) failed for an entry held from the start", tid, oi, world.Short(h))
			}
			break
		}
	case "len":
		n := l.Len()
		if n < len(s.initial) && !s.bounded {
			s.fail("T%d op %d: Len() = %d below the initial size %d", tid, oi, n, len(s.initial))
		}
	case "iterator":
		ch := make(chan iface.IPFSLogEntry, 4096)
		opts := &ipfslog.IteratorOptions{}
		if op.Arg%3 != 0 {
			a := op.Arg2 % 6
			opts.Amount = &a
		}
		// bounds taken from the entries held from the start
		init := s.initial.Sorted()
		if len(init) > 0 {
			pick := func(k int) cid.Cid { c, _ := cid.Decode(init[k%len(init)]); return c }
			switch (op.Arg / 3) % 5 {
			case 1:
				opts.LTE = []cid.Cid{pick(op.Arg2)}
			case 2:
				opts.LTE = []cid.Cid{pick(op.Arg2), pick(op.Arg2 + 1)}
			case 3:
				opts.LT = []cid.Cid{pick(op.Arg2)}
			case 4:
				opts.GTE = pick(op.Arg2)
			}
		}
		if err := l.Iterator(opts, ch); err != nil {
			if !s.bounded { // after a size-bounded merge a bound may legitimately be gone
				s.fail("T%d op %d: iterator failed: %v", tid, oi, err)
			}
			return
		}
		var seq []string
		for e := range ch {
			seq = append(seq, e.GetHash().String())
		}
		rec(readRec{seq: seq, kind: "iterator"})
	case "iterstream":
		// an iteration streamed to a consumer that writes to the log while it is being served: the iterator
		// runs on its own goroutine and hands entries over an unbuffered channel, the consumer appends after
		// the first one. (Under the cooperative engine extra goroutines are not schedulable: there the
		// iteration completes into a buffer first.)
		var seq []string
		if !s.free {
			ch := make(chan iface.IPFSLogEntry, 4096)
			if err := l.Iterator(&ipfslog.IteratorOptions{}, ch); err != nil {
				s.fail("T%d op %d: iterator failed: %v", tid, oi, err)
				return
			}
			for e := range ch {
				seq = append(seq, e.GetHash().String())
			}
			s.do(tid, oi, cop{Kind: "append", Arg: op.Arg})
		} else {
			ch := make(chan iface.IPFSLogEntry)
			errc := make(chan error, 1)
			go func() { errc <- l.Iterator(&ipfslog.IteratorOptions{}, ch) }()
			wrote := false
		loop:
			for {
				select {
				case e, ok := <-ch:
					if !ok {
						break loop
					}
					seq = append(seq, e.GetHash().String())
					if !wrote {
						wrote = true
						s.do(tid, oi, cop{Kind: "append", Arg: op.Arg})
					}
				case err := <-errc:
					if err != nil {
						s.fail("T%d op %d: iterator failed: %v", tid, oi, err)
						return
					}
					errc = nil // returned: the channel is closed next
				}
			}
			if !wrote {
				s.do(tid, oi, cop{Kind: "append", Arg: op.Arg})
			}
		}
		rec(readRec{seq: seq, kind: "iterator"})
	case "jsonlog":
		rec(readRec{heads: world.CidHashes(l.ToJSONLog().Heads)})
	case "publish":
		c, err := l.ToMultihash(ctx)
		if err != nil {
			if l.Len() > 0 && len(s.initial) > 0 && !s.bounded { // a size-bounded merge may have emptied the log
				s.fail("T%d op %d: ToMultihash failed on a non-empty log: %v", tid, oi, err)
			}
			return
		}
		node, err := s.w.Store.API().Dag().Get(ctx, c)
		if err != nil {
			s.fail("published manifest unreadable: %v", err)
			return
		}
		jl, err := s.w.IO.DecodeRawJSONLog(node)
		if err != nil {
			s.fail("published manifest undecodable: %v", err)
			return
		}
		rec(readRec{heads: world.CidHashes(jl.Heads)})
	case "setid":
		l.SetIdentity(world.Identity(op.Arg % 4))
	case "tostring":
		_ = l.ToString(nil)
	}
}

// checkReads validates every recorded read against the structural guarantees, using only the registry.
func (s *shared) checkReads(tb ev.TB, finalSet world.Set) {
	reg := s.w.Reg
	for _, r := range s.results {
		where := fmt.Sprintf("T%d op %d (%s)", r.thread, r.op, r.kind)
		members := append(append(append([]string{}, r.set...), r.seq...), r.heads...)
		for _, h := range members {
			if reg.Get(h) == nil {
				// an append that completed after this read was recorded is registered by now; anything else is foreign
				tb.Fatalf("%s returned unknown entry %s", where, world.Short(h))
			}
			if !finalSet.Has(h) && !s.bounded {
				tb.Fatalf("%s returned %s which the log does not hold at the end", where, world.Short(h))
			}
		}
		if r.kind == "iterator" || r.kind == "iterstream" {
			seen := world.Set{}
			for i, h := range r.seq {
				if seen.Has(h) {
					tb.Fatalf("%s emitted %s twice", where, world.Short(h))
				}
				seen.Add(h)
				if i > 0 && world.RefCompare(s.w.Order, reg.Get(r.seq[i-1]), reg.Get(h)) < 0 {
					tb.Fatalf("%s output not newest-first", where)
				}
			}
			continue
		}
		set := world.SetOf(append(append([]string{}, r.set...), r.seq...))
		if len(r.seq) > 0 || len(r.set) > 0 {
			if len(set) != len(r.set)+len(r.seq) {
				tb.Fatalf("%s contains duplicates", where)
			}
			if !s.bounded {
				for h := range set {
					for _, n := range reg.Get(h).Next {
						if !set.Has(n) {
							tb.Fatalf("%s: observed state is not causally complete: %s present, predecessor %s missing", where, world.Short(h), world.Short(n))
						}
					}
				}
				for h := range s.initial {
					if !set.Has(h) {
						tb.Fatalf("%s lost entry %s held from the start", where, world.Short(h))
					}
				}
			}
			pos := map[string]int{}
			for i, h := range r.seq {
				pos[h] = i
			}
			for _, h := range r.seq {
				for _, n := range reg.Get(h).Next {
					if pn, ok := pos[n]; ok && pn > pos[h] {
						tb.Fatalf("%s: %s placed before its predecessor", where, world.Short(h))
					}
				}
			}
		}
		if len(r.heads) > 0 || r.kind == "snapshot" {
			hs := world.SetOf(r.heads)
			if len(hs) != len(r.heads) {
				tb.Fatalf("%s: duplicate heads", where)
			}
			// no head names another head
			for h := range hs {
				for _, n := range reg.Get(h).Next {
					if hs.Has(n) {
						tb.Fatalf("%s: head %s names head %s as predecessor", where, world.Short(h), world.Short(n))
					}
				}
			}
			if r.kind == "snapshot" {
				want := reg.ModelHeads(set)
				if !s.bounded && !hs.Equal(want) {
					tb.Fatalf("%s: heads %v inconsistent with its own values (unreferenced: %v)", where, world.Shorts(hs.Sorted()), world.Shorts(want.Sorted()))
				}
			}
		}
	}
}

// checkAppends: every successful append exactly once, all on one chain, respecting completion order.
func (s *shared) checkAppends(tb ev.TB, startAt, endAt map[[2]int][2]int) {
	reg := s.w.Reg
	seen := world.Set{}
	for _, a := range s.appends {
		if seen.Has(a.hash) {
			tb.Fatalf("append result %s returned twice", world.Short(a.hash))
		}
		seen.Add(a.hash)
	}
	if s.bounded {
		return // a size-bounded merge may drop the previous append, so the next one cannot name it
	}
	for i, a := range s.appends {
		pa := reg.Past([]string{a.hash}, nil)
		for j, b := range s.appends {
			if i == j {
				continue
			}
			pb := reg.Past([]string{b.hash}, nil)
			if !pa.Has(b.hash) && !pb.Has(a.hash) {
				tb.Fatalf("appends %s (T%d) and %s (T%d) on the same log are concurrent: neither is in the other's causal past", world.Short(a.hash), a.thread, world.Short(b.hash), b.thread)
			}
			if startAt != nil {
				ea, okA := endAt[[2]int{a.thread, a.op}]
				sb, okB := startAt[[2]int{b.thread, b.op}]
				if okA && okB && ea[0] < sb[0] && !pb.Has(a.hash) {
					tb.Fatalf("append %s (T%d) completed before append %s (T%d) began but is not in its causal past", world.Short(a.hash), a.thread, world.Short(b.hash), b.thread)
				}
			}
		}
	}
}

func (s *shared) finalCheck(tb ev.TB) world.Set {
	reg := s.w.Reg
	ents, heads := s.log.VerifState()
	got := world.SetOf(world.Hashes(ents))
	want := s.initial.Clone()
	want.Union(s.joined)
	for _, a := range s.appends {
		want.Add(a.hash)
	}
	if !s.bounded {
		if !got.Equal(want) {
			var missing, extra []string
			for h := range want {
				if !got.Has(h) {
					missing = append(missing, world.Short(h))
				}
			}
			for h := range got {
				if !want.Has(h) {
					extra = append(extra, world.Short(h))
				}
			}
			sort.Strings(missing)
			sort.Strings(extra)
			tb.Fatalf("final state differs from initial ∪ appends ∪ merged logs: missing %v extra %v", missing, extra)
		}
		hs := world.SetOf(world.Hashes(heads))
		if wh := reg.ModelHeads(got); !hs.Equal(wh) {
			tb.Fatalf("final heads %v, unreferenced entries %v", world.Shorts(hs.Sorted()), world.Shorts(wh.Sorted()))
		}
	}
	return got
}
