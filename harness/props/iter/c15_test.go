package iter

import (
	"bytes"
	"context"
	"fmt"
	"math"
	"runtime/pprof"
	"strings"
	"testing"
	"time"

	"github.com/ipfs/go-cid"
	mh "github.com/multiformats/go-multihash"
	"pgregory.net/rapid"

	ipfslog "berty.tech/go-ipfs-log"
	"berty.tech/go-ipfs-log/iface"

	"verifharness/ev"
	"verifharness/sim"
	"verifharness/world"
)

func TestMain(m *testing.M) { ev.Main(m) }

type c15Prog struct {
	World   sim.Prog   `json:"world"`
	Replica int        `json:"replica"`
	Upper   string     `json:"upper"`            // none | lte | lt | lte-unknown | lt-unknown
	UpperIx []int      `json:"upperIx"`          // indices into the replica's entries (mod)
	Lower   string     `json:"lower"`            // none | gte | gt
	LowerIx int        `json:"lowerIx"`          // index into the expected range (mod)
	Amount  int        `json:"amount"`           // -1: no amount; else candidate selector
	Merge   bool       `json:"merge"`            // the chosen replica first merges every other replica (forked log)
	OneOpts bool       `json:"oneOpts,omitempty"` // the caller keeps ONE IteratorOptions value for all its queries, setting for each query the fields it needs and clearing those it set before and no longer needs
	Stream  int        `json:"stream,omitempty"` // k > 0: at the end the log is iterated once more, on a goroutine of its own, into an UNBUFFERED channel whose consumer appends to the log after each of the first k entries it receives
	More    []c15Query `json:"more,omitempty"`   // further queries on the SAME log object, each after a generated step (nothing, an append, a merge, a failing query, the same query again)
}

// c15Query is one set of iterator options (same encoding as the fields of c15Prog) and what happens before it.
type c15Query struct {
	Between string `json:"between"` // none | append | join | badquery | values
	Arg     int    `json:"arg"`
	Upper   string `json:"upper"`
	UpperIx []int  `json:"upperIx"`
	Lower   string `json:"lower"`
	LowerIx int    `json:"lowerIx"`
	Amount  int    `json:"amount"`
}

func genC15(t *rapid.T) c15Prog {
	cfg := sim.GenConfig{MaxReplicas: 3, MaxOps: ev.Scale(24, 60), MinOps: 1, Codecs: []int{0}, AppendBias: 2, NoRebuild: true, NoSetID: false, LargeOneIn: ev.Scale(96, 64)}
	w := sim.Gen(t, cfg)
	p := c15Prog{World: w}
	p.Replica = rapid.IntRange(0, w.Replicas-1).Draw(t, "replica")
	p.Upper = rapid.SampledFrom([]string{"none", "none", "lte", "lte", "lte", "lt", "lt", "lte-unknown", "lt-unknown"}).Draw(t, "upper")
	p.UpperIx = rapid.SliceOfN(rapid.IntRange(0, 1<<16), 1, 4).Draw(t, "upperIx")
	p.Lower = rapid.SampledFrom([]string{"none", "none", "gte", "gt"}).Draw(t, "lower")
	p.LowerIx = rapid.IntRange(0, 1<<16).Draw(t, "lowerIx")
	p.Amount = rapid.OneOf(rapid.Just(-1), rapid.IntRange(0, 1<<16), rapid.IntRange(0, 1<<16)).Draw(t, "amount")
	p.Merge = rapid.IntRange(0, 3).Draw(t, "merge") > 0
	for i, n := 0, rapid.SampledFrom([]int{0, 0, 1, 2, 3}).Draw(t, "more"); i < n; i++ {
		p.More = append(p.More, c15Query{
			Between: rapid.SampledFrom([]string{"none", "append", "append", "join", "badquery", "values"}).Draw(t, "between"),
			Arg:     rapid.IntRange(0, 1<<16).Draw(t, "barg"),
			Upper:   rapid.SampledFrom([]string{"none", "none", "lte", "lte", "lte", "lt", "lt", "lte-unknown", "lt-unknown"}).Draw(t, "upper"),
			UpperIx: rapid.SliceOfN(rapid.IntRange(0, 1<<16), 1, 4).Draw(t, "upperIx"),
			Lower:   rapid.SampledFrom([]string{"none", "none", "gte", "gt"}).Draw(t, "lower"),
			LowerIx: rapid.IntRange(0, 1<<16).Draw(t, "lowerIx"),
			Amount:  rapid.OneOf(rapid.Just(-1), rapid.IntRange(0, 1<<16), rapid.IntRange(0, 1<<16)).Draw(t, "amount"),
		})
	}
	p.OneOpts = len(p.More) > 0 && rapid.IntRange(0, 2).Draw(t, "oneOpts") == 0
	if rapid.IntRange(0, 5).Draw(t, "stream") == 0 {
		p.Stream = rapid.IntRange(1, 3).Draw(t, "streamAppends")
	}
	return p
}

func unknownCid(i int) cid.Cid {
	c, err := cid.V1Builder{Codec: cid.DagCBOR, MhType: mh.SHA2_256}.Sum([]byte(fmt.Sprintf("verif-unknown-%d", i)))
	if err != nil {
		panic(err)
	}
	return c
}

func mustCid(s string) cid.Cid {
	c, err := cid.Decode(s)
	if err != nil {
		panic(err)
	}
	return c
}

func reverse(xs []string) []string {
	o := make([]string, len(xs))
	for i, x := range xs {
		o[len(xs)-1-i] = x
	}
	return o
}

// C15 — iteration returns the requested causal range, newest first, and always ends.
func runC15(tb ev.TB, p c15Prog) ev.Result {
	w := sim.Run(tb, &p.World, func(tb ev.TB, w *sim.World, info *sim.OpInfo) {
		switch info.Op.Kind {
		case "append", "join":
			sim.MustOK(tb, info)
		}
	})
	r := w.Reps[p.Replica%len(w.Reps)]
	if p.Merge {
		for i := range w.Reps {
			if i != p.Replica%len(w.Reps) {
				sim.MustOK(tb, w.Exec(tb, -1, sim.Op{Kind: "join", A: p.Replica % len(w.Reps), B: i}, false))
			}
		}
	}
	var sh *sharedOpts
	if p.OneOpts {
		sh = &sharedOpts{opts: &ipfslog.IteratorOptions{}, set: map[string]bool{}}
	}
	nt, cl := runQuery(tb, w, r, c15Query{Upper: p.Upper, UpperIx: p.UpperIx, Lower: p.Lower, LowerIx: p.LowerIx, Amount: p.Amount}, sh)
	if p.OneOpts {
		cl = append(cl, "one-options-value-for-all-queries")
	}
	// further queries on the same log object: an iterator leaves nothing behind, whatever it was asked and however it
	// ended, and sees whatever the log has become since
	for qi, q := range p.More {
		ri := p.Replica % len(w.Reps)
		switch q.Between {
		case "append":
			sim.MustOK(tb, w.Exec(tb, -1, sim.Op{Kind: "append", A: ri, Payload: fmt.Sprintf("m%d", qi), PC: sim.PointerCounts[q.Arg%len(sim.PointerCounts)]}, false))
		case "join":
			sim.MustOK(tb, w.Exec(tb, -1, sim.Op{Kind: "join", A: ri, B: q.Arg % len(w.Reps)}, false))
		case "badquery":
			bad := make(chan iface.IPFSLogEntry, len(r.Model)+2)
			n := q.Arg % 3
			if err := r.Log.Iterator(&ipfslog.IteratorOptions{LTE: []cid.Cid{unknownCid(q.Arg)}, Amount: &n}, bad); err == nil {
				tb.Fatalf("iterator with an unknown upper bound returned no error")
			}
		case "values":
			_ = r.Log.Values()
		}
		nt2, cl2 := runQuery(tb, w, r, q, sh)
		nt = nt || nt2
		cl = append(cl, "further-query-after-"+q.Between)
		_ = cl2
	}
	if p.Stream > 0 && len(r.Model) > 0 {
		cl = append(cl, "streamed-to-a-consumer-that-appends")
		streamCheck(tb, w, r, p.Stream)
	}
	return ev.Result{NonTrivial: nt, Classes: cl}
}

// streamCheck: the iteration runs on its own goroutine and hands its entries over an unbuffered channel; the consumer
// appends to the same log after each of the first k entries. The iteration must still end (channel closed, nil
// returned) and deliver the range the log held when it started, newest first.
func streamCheck(tb ev.TB, w *sim.World, r *sim.Replica, k int) {
	l := r.Log
	model := r.Model.Clone()
	strict := w.Reg.StrictTotalOn(w.Order, model)
	want := reverse(w.Reg.RefSort(w.Order, model))
	ch := make(chan iface.IPFSLogEntry)
	ret := make(chan error, 1)
	go func() { ret <- l.Iterator(&ipfslog.IteratorOptions{}, ch) }()
	type outcome struct {
		got []string
		err error
	}
	fin := make(chan outcome, 1)
	go func() {
		var got []string
		for e := range ch {
			got = append(got, e.GetHash().String())
			if len(got) <= k {
				if ne, err := l.Append(context.Background(), []byte(fmt.Sprintf("while-iterating-%d", len(got))), nil); err == nil {
					w.Reg.Record(ne)
					r.Model.Add(ne.GetHash().String())
				}
			}
		}
		fin <- outcome{got, <-ret}
	}()
	select {
	case o := <-fin:
		if o.err != nil {
			tb.Fatalf("iteration streamed to a consumer that appends returned %v", o.err)
		}
		seen := world.Set{}
		for _, h := range o.got {
			if seen.Has(h) {
				tb.Fatalf("streamed iteration emitted %s twice", world.Short(h))
			}
			seen.Add(h)
		}
		// what the log held when the iteration started must all be there (entries appended meanwhile may or may not)
		for h := range model {
			if !seen.Has(h) {
				tb.Fatalf("streamed iteration did not deliver %s, which the log held when it started (%d delivered, %d held)", world.Short(h), len(o.got), len(model))
			}
		}
		if strict && len(o.got) == len(want) && !world.EqualStrings(o.got, want) {
			tb.Fatalf("streamed iteration not newest first:\n got  %v\n want %v", world.Shorts(o.got), world.Shorts(want))
		}
	case <-time.After(30 * time.Second):
		var buf bytes.Buffer
		_ = pprof.Lookup("goroutine").WriteTo(&buf, 2)
		dump := buf.String()
		if strings.Contains(dump, "go-ipfs-log.(*IPFSLog).Iterator") && strings.Contains(dump, "go-ipfs-log.(*IPFSLog).Append") && strings.Contains(dump, "sync.(*RWMutex)") {
			if len(dump) > 5000 {
				dump = dump[:5000]
			}
			tb.Fatalf("iteration did not end within 30s: the iterator is parked on its output channel while its consumer waits for the log's lock in Append:\n%s", dump)
		}
		// slow machine: no verdict
	}
}

// runQuery runs one iterator query on replica r and checks its outcome against the registry.
// sharedOpts is the one IteratorOptions value of a caller that reuses it, and the fields the caller itself set last time.
type sharedOpts struct {
	opts *ipfslog.IteratorOptions
	set  map[string]bool
}

// apply writes the wanted query into the caller's one options value the way such a caller does: it assigns the fields
// this query needs and clears the fields it had set for the previous query and does not need now; fields it never
// touched stay as they are.
func (s *sharedOpts) apply(want *ipfslog.IteratorOptions) *ipfslog.IteratorOptions {
	now := map[string]bool{"LT": want.LT != nil, "LTE": want.LTE != nil, "GT": want.GT.Defined(), "GTE": want.GTE.Defined(), "Amount": want.Amount != nil}
	if now["LT"] || s.set["LT"] {
		s.opts.LT = want.LT
	}
	if now["LTE"] || s.set["LTE"] {
		s.opts.LTE = want.LTE
	}
	if now["GT"] || s.set["GT"] {
		s.opts.GT = want.GT
	}
	if now["GTE"] || s.set["GTE"] {
		s.opts.GTE = want.GTE
	}
	if now["Amount"] || s.set["Amount"] {
		s.opts.Amount = want.Amount
	}
	s.set = now
	return s.opts
}

func runQuery(tb ev.TB, w *sim.World, r *sim.Replica, p c15Query, sh *sharedOpts) (bool, []string) {
	l := r.Log
	all := r.Model.Sorted()
	opts := &ipfslog.IteratorOptions{}
	wantErr := false
	var start []string
	upper := p.Upper
	if len(all) == 0 && (upper == "lte" || upper == "lt") {
		upper = "none"
	}
	switch upper {
	case "none":
		start = w.Reg.ModelHeads(r.Model).Sorted()
	case "lte":
		for _, ix := range p.UpperIx {
			h := all[ix%len(all)]
			opts.LTE = append(opts.LTE, mustCid(h))
			start = append(start, h)
		}
	case "lt":
		h := all[p.UpperIx[0]%len(all)]
		opts.LT = []cid.Cid{mustCid(h)}
		start = append(start, w.Reg.Get(h).Next...)
	case "lte-unknown":
		// one of the bounds (at a generated position: first, middle or last) is not in the log
		pos := p.LowerIx % len(p.UpperIx)
		for i, ix := range p.UpperIx {
			if i == pos || len(all) == 0 {
				opts.LTE = append(opts.LTE, unknownCid(ix))
				continue
			}
			opts.LTE = append(opts.LTE, mustCid(all[ix%len(all)]))
		}
		wantErr = true
	case "lt-unknown":
		opts.LT = []cid.Cid{unknownCid(p.UpperIx[0])}
		wantErr = true
	}
	past := w.Reg.Past(start, r.Model)
	strict := w.Reg.StrictTotalOn(w.Order, past)
	desc := reverse(w.Reg.RefSort(w.Order, past))

	// lower bound inside the selected range
	lower := p.Lower
	if len(desc) == 0 || wantErr {
		lower = "none"
	}
	rangeD := desc
	g := ""
	switch lower {
	case "gte":
		ix := p.LowerIx % len(desc)
		g = desc[ix]
		opts.GTE = mustCid(g)
		rangeD = desc[:ix+1]
	case "gt":
		ix := p.LowerIx % len(desc)
		g = desc[ix]
		opts.GT = mustCid(g)
		rangeD = desc[:ix]
	}
	amount := -1
	if p.Amount >= 0 {
		cands := []int{0, 1, 2, len(rangeD) - 1, len(rangeD), len(rangeD) + 1, len(all) + 3, p.Amount % (len(all) + 4), p.Amount % (len(all) + 4), math.MaxInt32, math.MaxInt}
		amount = cands[p.Amount%len(cands)]
		if amount < 0 {
			amount = 0
		}
		opts.Amount = &amount
	}
	expected := rangeD
	if amount >= 0 {
		k := amount
		if k > len(rangeD) {
			k = len(rangeD)
		}
		if lower != "none" {
			expected = rangeD[len(rangeD)-k:]
		} else {
			expected = rangeD[:k]
		}
	}

	ch := make(chan iface.IPFSLogEntry, len(all)+2)
	if sh != nil {
		opts = sh.apply(opts)
	}
	err := l.Iterator(opts, ch) // a panic is a violation
	cl := []string{"upper-" + upper, "lower-" + lower}
	if amount >= 0 {
		switch {
		case amount == 0:
			cl = append(cl, "amount=0")
		case amount > len(rangeD):
			cl = append(cl, "amount>available")
		case amount == len(rangeD):
			cl = append(cl, "amount=available")
		default:
			cl = append(cl, "amount<available")
		}
	} else {
		cl = append(cl, "amount-none")
	}
	fork := w.Reg.HasFork(r.Model)
	if fork {
		cl = append(cl, "fork")
	}
	if wantErr {
		if err == nil {
			tb.Fatalf("iterator with unknown upper bound (%s, amount=%d) returned no error", upper, amount)
		}
		return false, cl
	}
	if err != nil {
		tb.Fatalf("iterator %s/%s amount=%d returned error %v", upper, lower, amount, err)
	}
	var got []string
	closed := false
loop:
	for {
		select {
		case e, ok := <-ch:
			if !ok {
				closed = true
				break loop
			}
			got = append(got, e.GetHash().String())
		default:
			break loop
		}
	}
	if !closed {
		tb.Fatalf("iterator %s/%s amount=%d returned nil but did not close the output channel (emitted %d)", upper, lower, amount, len(got))
	}
	// order-free clauses, always
	seen := world.Set{}
	for i, h := range got {
		if seen.Has(h) {
			tb.Fatalf("iterator emitted %s twice", world.Short(h))
		}
		seen.Add(h)
		if !past.Has(h) {
			tb.Fatalf("iterator emitted %s which is not in the causal past of the upper bound", world.Short(h))
		}
		if i > 0 && world.RefCompare(w.Order, w.Reg.Get(got[i-1]), w.Reg.Get(h)) < 0 {
			tb.Fatalf("iterator output not newest-first at %d: %v", i, world.Shorts(got))
		}
	}
	if amount >= 0 && len(got) > amount {
		tb.Fatalf("iterator emitted %d entries for amount %d", len(got), amount)
	}
	if lower == "gt" && seen.Has(g) {
		tb.Fatalf("iterator with exclusive lower bound emitted the bound")
	}
	if strict {
		if !world.EqualStrings(got, expected) {
			tb.Fatalf("iterator upper=%s(%v) lower=%s(%s) amount=%d:\n got  %v\n want %v", upper, world.Shorts(start), lower, world.Short(g), amount, world.Shorts(got), world.Shorts(expected))
		}
	} else {
		if len(got) != len(expected) && !(lower != "none") {
			tb.Fatalf("iterator emitted %d entries, want %d", len(got), len(expected))
		}
		if lower == "gte" && amount != 0 && !seen.Has(g) {
			tb.Fatalf("iterator with inclusive lower bound did not emit the bound")
		}
		// causal-descendant reading: every strict descendant of g inside the range must be present when no amount cuts it
		if lower != "none" && amount < 0 {
			for _, h := range desc {
				if h == g {
					continue
				}
				if w.Reg.Past([]string{h}, past).Has(g) && !seen.Has(h) {
					tb.Fatalf("iterator skipped %s, a descendant of the lower bound", world.Short(h))
				}
			}
		}
	}
	nt := fork && ((upper == "lte" && len(world.SetOf(start)) >= 2) || (amount >= 0 && amount >= len(rangeD)))
	return nt, cl
}

func TestC15(t *testing.T) {
	c := ev.Get("C15")
	c.Rule = "a generated multi-replica program builds (usually forked) logs by Append/Join; one replica and iterator options are drawn: upper bound in {none, LTE with 1-4 entries (related or not, duplicates allowed), LT with one entry, unknown hash}, lower bound in {none, GTE g, GT g} with g drawn inside the selected range, amount in {nil, 0, 1, 2, avail-1, avail, avail+1, size+3, random}. Expected output = reference descending sort of the causal past of the start set (registry closure), cut at g, then first/last `amount`; exact when the ordering is strict-total on that past, order-free clauses otherwise. The channel is buffered (size+2) and must be closed on success. Non-trivial = forked log and (multi-entry LTE, or amount >= available incl. amount 0 on an empty range); distinct = distinct program. Up to three further queries run on the same log object, each after a generated step (nothing, an append, a merge, a failing query, a Values() call); in a sixth of the programs a final iteration is streamed over an unbuffered channel to a consumer that appends to the log after each of the first 1-3 entries: it must end (30 s watchdog, verdict from the goroutine dump) and deliver what the log held when it started. In a third of the programs with further queries the caller keeps ONE IteratorOptions value for all of them, setting the fields a query needs and clearing only those it set itself."
	c.Assumptions = []string{"on forked logs 'down to the lower bound' is read as 'everything the ordering places after the bound' (what traverse with an end hash does); the causal-descendant reading is a subset and is asserted too", "Amount -1 (the library's 'no amount') is not generated as an amount", "logs are built by Append/Join only, so every entry's time exceeds its predecessors' (C04), which makes a priority walk equal to a sort"}
	ev.Check(t, "C15", genC15, runC15)
}
