package iter

import (
	"testing"

	"pgregory.net/rapid"

	"verifharness/ev"
)

// FuzzC15: generator and oracle of TestC15 under Go's coverage-guided fuzzer.
func FuzzC15(f *testing.F) {
	coll := ev.Get("C15")
	f.Fuzz(rapid.MakeFuzz(func(t *rapid.T) {
		p := genC15(t)
		coll.Record(p, runC15(t, p))
	}))
}
