package load

import (
	"context"
	"fmt"
	"math"
	"testing"
	"time"

	"github.com/ipfs/go-cid"
	"pgregory.net/rapid"

	ipfslog "berty.tech/go-ipfs-log"
	"berty.tech/go-ipfs-log/iface"

	"verifharness/ev"
	"verifharness/sim"
	"verifharness/world"
)

type c10Prog struct {
	World       sim.Prog   `json:"world"`
	Replica     int        `json:"replica"`
	Merge       bool       `json:"merge"`
	Loader      int        `json:"loader"`
	N           int        `json:"n"`                     // limit selector
	Supplied    []int      `json:"supplied"`              // entries loader / hash loader: indices into the log's entries (mod)
	HeadsOnly   bool       `json:"headsOnly"`             // entries loader: supply the heads
	Runs        []loadSpec `json:"runs"`                  // >= 3 executions with different concurrency / completion order
	HeadPerm    []int      `json:"headPerm,omitempty"`    // order of the published head list (empty: the log\'s own order)
	DupSupplied bool       `json:"dupSupplied,omitempty"` // entries loader: one supplied entry is named twice
	Abandoned   int        `json:"abandoned,omitempty"`   // k > 0: earlier in the process a load of ANOTHER log (in the same store) was abandoned - its context was already cancelled (k odd) or expired after about k block reads (k even) - through loader #(k mod 4, entry-based ones)
	Roomy       int        `json:"roomy,omitempty"`       // entries loader: spare capacity of the slice the caller hands over (0: none, as a literal has; k: room for k more entries, as a slice cut from a larger one has)
	Shared      int        `json:"shared,omitempty"`      // 0: a fresh limit variable per load; 1-4: the caller keeps ONE limit variable for all its loads and first uses it for a load through loader #(Shared-1)
}

func genC10(t *rapid.T) c10Prog {
	cfg := sim.GenConfig{MaxReplicas: 4, MaxOps: ev.Scale(26, 60), MinOps: 2, Codecs: []int{0}, AppendBias: 3, NoRebuild: true, LargeOneIn: ev.Scale(96, 64)}
	w := sim.Gen(t, cfg)
	p := c10Prog{World: w, Replica: rapid.IntRange(0, 11).Draw(t, "replica"), Merge: rapid.IntRange(0, 3).Draw(t, "merge") > 0}
	p.Loader = rapid.IntRange(0, 3).Draw(t, "loader")
	p.N = rapid.IntRange(0, 1<<16).Draw(t, "n")
	p.Supplied = rapid.SliceOfN(rapid.IntRange(0, 1<<12), 1, 4).Draw(t, "supplied")
	p.HeadsOnly = rapid.Bool().Draw(t, "headsOnly")
	if rapid.Bool().Draw(t, "permuteHeads") {
		p.HeadPerm = rapid.SliceOfN(rapid.IntRange(0, 7), 1, 6).Draw(t, "headPerm")
	}
	p.Shared = rapid.SampledFrom([]int{0, 0, 1, 2, 3, 4, 4}).Draw(t, "shared")
	if rapid.IntRange(0, 5).Draw(t, "dupSupplied") == 0 {
		// only meaningful for the entries loader with caller-chosen entries
		p.DupSupplied, p.Loader, p.HeadsOnly = true, 2, false
	}
	for i := 0; i < 3; i++ {
		s := genLoadSpec(t)
		s.Loader = p.Loader
		p.Runs = append(p.Runs, s)
	}
	p.Roomy = rapid.SampledFrom([]int{0, 0, 1, 4, 64, 2000}).Draw(t, "roomy")
	if rapid.IntRange(0, 3).Draw(t, "abandoned") == 0 {
		p.Abandoned = rapid.IntRange(1, 8).Draw(t, "abandonedK")
	}
	return p
}

// C10 — a length-limited load returns exactly the most recent entries.
func runC10(tb ev.TB, p c10Prog) ev.Result {
	coll := ev.Get("C10")
	ctx := context.Background()
	w := sim.Run(tb, &p.World, func(tb ev.TB, w *sim.World, info *sim.OpInfo) {
		switch info.Op.Kind {
		case "append", "join":
			sim.MustOK(tb, info)
		}
	})
	ri := p.Replica % len(w.Reps)
	if p.Replica%3 != 0 {
		best := -1
		for i, x := range w.Reps {
			if n := len(x.Model); n > best {
				best, ri = n, i
			}
		}
	}
	if p.Merge {
		for i := range w.Reps {
			if i != ri {
				sim.MustOK(tb, w.Exec(tb, -1, sim.Op{Kind: "join", A: ri, B: i}, false))
			}
		}
	}
	r := w.Reps[ri]
	if len(r.Model) == 0 {
		return ev.Result{Classes: []string{"empty-world"}}
	}
	loader := loaderNames[p.Loader%4]
	all := r.Model.Sorted()
	entriesByHash := map[string]iface.IPFSLogEntry{}
	for _, e := range r.Log.GetEntries().Slice() {
		entriesByHash[e.GetHash().String()] = e
	}
	manifest, err := r.Log.ToMultihash(ctx)
	if err != nil {
		tb.Fatalf("ToMultihash: %v", err)
	}
	jsonLog := r.Log.ToJSONLog()
	if len(p.HeadPerm) > 0 {
		jsonLog, manifest = permuteHeads(tb, w, jsonLog, p.HeadPerm)
	}

	// starting points the caller supplies, and what is reachable from the start
	var supplied []string
	dupSupplied := ""
	var start []string
	var hash cid.Cid
	switch loader {
	case "manifest", "json":
		start = w.Reg.ModelHeads(r.Model).Sorted()
	case "hash":
		h := all[p.Supplied[0]%len(all)]
		if p.HeadsOnly {
			h = world.Hashes(r.Log.Heads())[0]
		}
		supplied, start = []string{h}, []string{h}
		hash = entriesByHash[h].GetHash()
	case "entries":
		if p.HeadsOnly {
			supplied = world.Hashes(r.Log.Heads())
		} else {
			seen := world.Set{}
			for _, ix := range p.Supplied {
				h := all[ix%len(all)]
				if !seen.Has(h) {
					seen.Add(h)
					supplied = append(supplied, h)
				}
			}
			if p.DupSupplied && len(supplied) > 0 {
				dupSupplied = supplied[p.N%len(supplied)]
			}
		}
		start = supplied
	}
	var suppliedEntries []iface.IPFSLogEntry
	for _, h := range supplied {
		suppliedEntries = append(suppliedEntries, entriesByHash[h])
	}
	if dupSupplied != "" {
		// the caller names one entry twice (say, the concatenated heads of two replicas that share a head): k still
		// counts distinct entries
		suppliedEntries = append(suppliedEntries, entriesByHash[dupSupplied])
	}
	reach := w.Reg.Past(start, r.Model)
	size := len(reach)
	k := len(supplied)
	if dupSupplied != "" {
		k++ // the statement's k counts what the caller handed over
	}
	cands := []int{0, 1, 2, 3, size / 3, size / 2, size - 2, size - 1, size, size + 1, size + 3, p.N % (size + 4), 1 + p.N%(size+1)/2, p.N % (size + 4), 1000 * (size + 1), math.MaxInt32, math.MaxInt}
	n := cands[p.N%len(cands)]
	if n < 0 {
		n = 0
	}
	want := n
	if k > want {
		want = k
	}
	if size < want {
		want = size
	}
	suppliedSet := world.SetOf(supplied)
	strictLWW := w.Reg.StrictTotalOn(world.OrderLWW, reach)

	var outcomes []world.Set
	anyOOO := false
	// a caller may keep its limit in one variable and hand the same pointer to every load it makes
	sharedLimit := n
	if p.Shared > 0 {
		hs := r.Log.Heads().Slice()
		if len(hs) > 0 {
			wl := []string{"manifest", "json", "entries", "hash"}[(p.Shared-1)%4]
			if _, err := doLoad(ctx, w.Store.API(), w, wl, manifest, jsonLog, append([]iface.IPFSLogEntry(nil), hs...), hs[0].GetHash(), &sharedLimit, 0, nil, 0); err != nil {
				tb.Fatalf("%s loader, limit %d (first load through the caller's limit variable): %v", wl, n, err)
			}
		}
	}
	if p.Abandoned > 0 {
		// what an abandoned load was after is nobody's business afterwards
		aside, err := world.NewLog(w.Store.API(), 5, "aside-log", w.Order, w.IO, nil)
		if err != nil {
			tb.Fatalf("harness: %v", err)
		}
		var last iface.IPFSLogEntry
		for i := 0; i < 6; i++ {
			if last, err = aside.Append(ctx, []byte{byte('a' + i)}, &ipfslog.AppendOptions{PointerCount: 1 + i%3}); err != nil {
				tb.Fatalf("harness: %v", err)
			}
		}
		actx, cancel := context.WithCancel(ctx)
		if p.Abandoned%2 == 1 {
			cancel()
		} else {
			w.Store.SetDelay(time.Millisecond)
			go func() { time.Sleep(time.Duration(p.Abandoned) * time.Millisecond); cancel() }()
		}
		alo := &ipfslog.LogOptions{ID: "aside-log", SortFn: world.SortFn(w.Order), IO: w.IO}
		if p.Abandoned%4 < 2 {
			_, _ = ipfslog.NewFromEntryHash(actx, w.Store.API(), world.Identity(7), last.GetHash(), alo, &ipfslog.FetchOptions{Concurrency: 1})
		} else {
			_, _ = ipfslog.NewFromEntry(actx, w.Store.API(), world.Identity(7), []iface.IPFSLogEntry{last}, alo, &iface.FetchOptions{Concurrency: 1})
		}
		cancel()
		w.Store.SetDelay(0)
	}
	for ri2, spec := range p.Runs {
		var got world.Set
		var lerr error
		var dup bool
		nn := n
		lp := &nn
		if p.Shared > 0 {
			lp = &sharedLimit // the same variable serves every load of this caller
		}
		res := gatedOrPlain(tb, coll, w, spec, func() {
			// the slice handed over is the caller's: whatever room it has behind its last element, and whatever it holds,
			// is the caller's too
			mine := append(make([]iface.IPFSLogEntry, 0, len(suppliedEntries)+p.Roomy), suppliedEntries...)
			l, err := doLoad(ctx, w.Store.API(), w, loader, manifest, jsonLog, mine, hash, lp, spec.Concurrency, nil, 0)
			lerr = err
			if err == nil {
				hs := world.Hashes(l.GetEntries())
				got = world.SetOf(hs)
				dup = len(got) != len(hs) || l.Len() != len(hs)
			}
		})
		if res.Inconclusive != "" {
			continue
		}
		if res.OutOfOrder > 0 {
			anyOOO = true
		}
		where := fmt.Sprintf("%s loader, limit %d, log size %d (reachable %d), %d supplied, run %d (concurrency %d, gated %v, limit variable shared with earlier loads: %v)", loader, n, len(r.Model), size, k, ri2, spec.Concurrency, spec.Gated, p.Shared > 0)
		if lerr != nil {
			tb.Fatalf("%s: load failed: %v", where, lerr)
		}
		if dup {
			tb.Fatalf("%s: duplicates in the loaded log", where)
		}
		for h := range got {
			if !reach.Has(h) {
				tb.Fatalf("%s: returned %s which is not reachable from the start", where, world.Short(h))
			}
		}
		if len(got) != want {
			tb.Fatalf("%s: returned %d entries, want min(max(n,k),size) = %d", where, len(got), want)
		}
		for h := range suppliedSet {
			if !got.Has(h) {
				tb.Fatalf("%s: supplied entry %s is not in the result", where, world.Short(h))
			}
		}
		// most recent: nothing excluded is strictly newer than an included non-supplied entry
		for x := range reach {
			if got.Has(x) {
				continue
			}
			for h := range got {
				if suppliedSet.Has(h) {
					continue
				}
				if world.RefCompare(world.OrderLWW, w.Reg.Get(x), w.Reg.Get(h)) > 0 {
					tb.Fatalf("%s: excluded entry %s (time %d) is newer than included %s (time %d)", where, world.Short(x), w.Reg.Get(x).Time, world.Short(h), w.Reg.Get(h).Time)
				}
			}
		}
		outcomes = append(outcomes, got)
	}
	if strictLWW {
		for i := 1; i < len(outcomes); i++ {
			if !outcomes[i].Equal(outcomes[0]) {
				tb.Fatalf("%s loader, limit %d: outcome depends on concurrency / arrival order: run 0 %v vs run %d %v", loader, n, world.Shorts(outcomes[0].Sorted()), i, world.Shorts(outcomes[i].Sorted()))
			}
		}
	}
	cl := []string{"loader-" + loader}
	switch {
	case n == 0:
		cl = append(cl, "n=0")
	case n < size:
		cl = append(cl, "0<n<size")
	case n == size:
		cl = append(cl, "n=size")
	default:
		cl = append(cl, "n>size")
	}
	fork := w.Reg.HasFork(reach)
	if fork {
		cl = append(cl, "fork")
	}
	if anyOOO {
		cl = append(cl, "out-of-order-completion")
	}
	nt := fork && hasRefs(w, reach) && n > 0 && n < size && anyOOO
	return ev.Result{NonTrivial: nt, Classes: cl}
}

func TestC10(t *testing.T) {
	c := ev.Get("C10")
	c.Rule = "a generated multi-replica program builds a stored log; a loader (manifest / JSON heads / entries: 1-4 supplied entries, heads or arbitrary entries of the log / entry hash of any entry), a limit n in {0,1,2,size/2,size-1,size,size+1,size+3,random} and three executions with generated concurrency and completion schedules (gated store) are drawn. Oracle from the registry: result ⊆ causal past of the start, |result| == min(max(n,k),size), supplied ⊆ result, no excluded entry strictly newer in (time, clock id) than an included non-supplied one, and identical result sets across the three executions when (time, id) pairs are distinct. Non-trivial = forked log with skip references, 0 < n < size, and a read completed out of issue order; distinct = distinct program. The supplied slice has generated spare capacity (0, 1, 4, 64, 2000). In a quarter of the programs an earlier load of another log in the same store was abandoned (context cancelled before, or a few block reads into, the load)."
	c.Assumptions = []string{"ties in (clock time, clock id) may be resolved either way", "size is the number of entries reachable from the start (the whole log for manifest / JSON heads)"}
	ev.Check(t, "C10", genC10, runC10)
}
