package load

import (
	"context"
	"errors"
	"fmt"
	"sync"
	"testing"

	"github.com/ipfs/go-cid"
	"pgregory.net/rapid"

	ipfslog "berty.tech/go-ipfs-log"
	"berty.tech/go-ipfs-log/accesscontroller"
	"berty.tech/go-ipfs-log/entry"
	idp "berty.tech/go-ipfs-log/identityprovider"
	"berty.tech/go-ipfs-log/iface"

	"verifharness/ev"
	"verifharness/fakeipfs"
	"verifharness/sim"
	"verifharness/world"
)

type c17Prog struct {
	World    sim.Prog `json:"world"`              // ops may also be "publish" (a) and "failnext" (the next block write fails)
	KeepRefs bool     `json:"keepRefs,omitempty"` // the store keeps the byte slices it is handed instead of copying them (in-memory datastores do)
	Extra    []int    `json:"extra"`              // later prefixes to load from (quick tier); thorough enumerates all
}

func genC17(t *rapid.T) c17Prog {
	cfg := sim.GenConfig{MaxReplicas: 4, MaxOps: ev.Scale(24, 40), MinOps: 3, Codecs: []int{0, 1}, AppendBias: 2, NoRebuild: true}
	w := sim.Gen(t, cfg)
	// sprinkle publications and write failures
	var ops []sim.Op
	for _, op := range w.Ops {
		switch rapid.IntRange(0, 9).Draw(t, "extraop") {
		case 0, 1:
			ops = append(ops, sim.Op{Kind: "publish", A: rapid.IntRange(0, w.Replicas-1).Draw(t, "pubrep")})
		case 2:
			// Flag 1: the caller retries at once (a failed publication is published again; a failed append is
			// repeated by a second replica of the same writer in the same state)
			// PC: what the failing write reports (plain error, timeout, deadline, wrapped timeout); B: how many block
			// writes in a row fail (6 = every write until the operation has returned: an outage)
			ops = append(ops, sim.Op{Kind: "failnext", Flag: rapid.IntRange(0, 1).Draw(t, "retry"), PC: rapid.IntRange(0, 4).Draw(t, "failKind"), B: rapid.SampledFrom([]int{1, 1, 2, 3, 6}).Draw(t, "failRun")})
			if rapid.IntRange(0, 2).Draw(t, "failpub") == 0 { // the write that fails is a publication
				ops = append(ops, sim.Op{Kind: "publish", A: rapid.IntRange(0, w.Replicas-1).Draw(t, "pubrep")})
			}
		case 5:
			// two replicas of one writer, in the same state, append the same payload at the same time
			ops = append(ops, sim.Op{Kind: "twinrace", A: rapid.IntRange(0, w.Replicas-1).Draw(t, "racerep"), PC: rapid.SampledFrom([]int{0, 1, 4}).Draw(t, "racepc")})
		case 4:
			// the caller's context is already cancelled when the next append / publication is issued
			ops = append(ops, sim.Op{Kind: "cancelnext"})
			if rapid.IntRange(0, 2).Draw(t, "cancelpub") == 0 {
				ops = append(ops, sim.Op{Kind: "publish", A: rapid.IntRange(0, w.Replicas-1).Draw(t, "pubrep")})
			}
		case 3:
			ops = append(ops, sim.Op{Kind: "twindeny", B: rapid.IntRange(0, 1<<10).Draw(t, "twin")})
		case 6:
			// a log on ANOTHER store is appended to, through the same codec object, while a log on this store is
			if rapid.IntRange(0, 2).Draw(t, "twoStores") == 0 {
				ops = append(ops, sim.Op{Kind: "twostores", PC: rapid.SampledFrom([]int{3, 8, 20}).Draw(t, "twoStoresN")})
			}
		}
		ops = append(ops, op)
	}
	ops = append(ops, sim.Op{Kind: "publish", A: rapid.IntRange(0, w.Replicas-1).Draw(t, "pubrep")})
	w.Ops = ops
	return c17Prog{World: w, KeepRefs: rapid.Bool().Draw(t, "storeKeepsSlices"), Extra: rapid.SliceOfN(rapid.IntRange(0, 1<<12), 2, 2).Draw(t, "extra")}
}

type returned struct {
	kind    string // entry | manifest
	c       cid.Cid
	prefix  int // number of distinct block writes when the value was returned
	set     world.Set
	heads   world.Set
	opIndex int
}

var errInjectedAdd = errors.New("injected block write failure")

// timeoutErr is what a busy or unreachable store answers: an error that calls itself a timeout and temporary.
type timeoutErr struct{}

func (timeoutErr) Error() string   { return "injected block write failure: i/o timeout" }
func (timeoutErr) Timeout() bool   { return true }
func (timeoutErr) Temporary() bool { return true }

// storePanic runs f and returns the injected store panic that escaped from it, if any (other panics travel on).
func storePanic(f func()) (pf error) {
	defer func() {
		if r := recover(); r != nil {
			if v, ok := r.(fakeipfs.PanicFault); ok {
				pf = v
				return
			}
			panic(r)
		}
	}()
	f()
	return nil
}

// injectedErr returns the error of kind k a failing write reports.
func injectedErr(k int) error {
	switch k % 5 {
	case 4:
		return fakeipfs.PanicFault{Msg: "injected: storage layer panicked during the write"}
	case 1:
		return timeoutErr{}
	case 2:
		return context.DeadlineExceeded
	case 3:
		return fmt.Errorf("store: %w", timeoutErr{})
	}
	return errInjectedAdd
}

// C17 — the block store is causally closed at every instant (crash safety).
func runC17(tb ev.TB, p c17Prog) ev.Result {
	ctx := context.Background()
	w := sim.New(tb, &p.World)
	w.Store.SetKeepRefs(p.KeepRefs)
	var rets []returned
	manifests := world.Set{}
	failArmed, retryArmed := false, false
	retries, pubRetries := 0, 0
	mergeAppend, pubThenAppend := false, false
	published := map[int]bool{}
	nfail := 0
	var committed []committedAppend
	twins, exactTwins, multiWrite, leftovers := 0, 0, 0, 0
	cancelArmed, cancelled := false, 0
	races, panics, twoStores := 0, 0, 0
	for i, op := range p.World.Ops {
		n := len(w.Reps)
		opCtx := ctx
		if cancelArmed && (op.Kind == "append" || op.Kind == "publish") {
			cancelArmed = false
			cctx, cancel := context.WithCancel(ctx)
			cancel()
			opCtx = cctx
			cancelled++
		}
		switch op.Kind {
		case "cancelnext":
			cancelArmed = true
			continue
		case "twinrace":
			// two replicas of the same writer in the same state append the same payload concurrently: both produce
			// the same block. The first write is held inside the store; whatever the second Append returns meanwhile
			// must already be stored (a crash at that instant may only lose operations that have not returned).
			r := w.Reps[op.A%n]
			if failArmed || cancelArmed {
				continue
			}
			mk := func() *ipfslog.IPFSLog {
				tl, err := ipfslog.NewLog(w.Store.API(), r.Log.Identity, &ipfslog.LogOptions{ID: sim.LogID, Entries: r.Log.GetEntries(), Heads: r.Log.Heads().Slice(), SortFn: world.SortFn(w.Order), IO: w.IO,
					Clock: entry.NewLamportClock(r.Log.Identity.PublicKey, r.Log.Clock.GetTime())})
				if err != nil {
					tb.Fatalf("op #%d twin log: %v", i, err)
				}
				return tl
			}
			t1, t2 := mk(), mk()
			payload := []byte(fmt.Sprintf("race-%d", i))
			release := make(chan struct{})
			entered := make(chan struct{})
			target := w.Store.NumAdds()
			w.Store.SetAddHold(func(nth int, _ cid.Cid) <-chan struct{} {
				if nth == target {
					close(entered)
					return release
				}
				return nil
			})
			type res struct {
				e   iface.IPFSLogEntry
				err error
			}
			first := make(chan res, 1)
			go func() {
				e, err := t1.Append(ctx, payload, &ipfslog.AppendOptions{PointerCount: op.PC})
				first <- res{e, err}
			}()
			select {
			case <-entered:
			case r1 := <-first:
				// the first append ended without writing a block at all
				w.Store.SetAddHold(nil)
				if r1.err == nil {
					if _, ok := w.Store.Raw(r1.e.GetHash()); !ok {
						tb.Fatalf("op #%d: Append returned %s without writing its block", i, world.Short(r1.e.GetHash().String()))
					}
				}
				continue
			}
			e2, err2 := t2.Append(ctx, payload, &ipfslog.AppendOptions{PointerCount: op.PC})
			stored := false
			if err2 == nil {
				_, stored = w.Store.Raw(e2.GetHash())
			}
			close(release)
			r1 := <-first
			w.Store.SetAddHold(nil)
			if err2 != nil || r1.err != nil {
				tb.Fatalf("op #%d concurrent twin appends failed: %v / %v", i, r1.err, err2)
			}
			if !stored {
				tb.Fatalf("op #%d: an Append returned %s while the only write of that block was still in flight (held in the store): the block was not stored when the operation returned", i, world.Short(e2.GetHash().String()))
			}
			races++
			w.Reg.Record(e2)
			set := r.Model.Clone()
			set.Add(e2.GetHash().String())
			rets = append(rets, returned{kind: "entry", c: e2.GetHash(), prefix: w.Store.NumWrites(), set: set, heads: world.SetOf([]string{e2.GetHash().String()}), opIndex: i})
			continue
		case "twostores":
			// two applications in one process: each appends to a log of its own, on a store of its own, through the one
			// codec object (the default codec is a process-wide object anyway). What an Append returns must be in the
			// store of ITS log.
			if failArmed || cancelArmed {
				continue
			}
			other := fakeipfs.NewStore()
			aside, err1 := ipfslog.NewLog(w.Store.API(), world.Identity(6), &ipfslog.LogOptions{ID: "aside-log", IO: w.IO})
			elsewhere, err2 := ipfslog.NewLog(other.API(), world.Identity(7), &ipfslog.LogOptions{ID: "elsewhere-log", IO: w.IO})
			if err1 != nil || err2 != nil {
				tb.Fatalf("op #%d: harness: %v %v", i, err1, err2)
			}
			var wg sync.WaitGroup
			var here, there []iface.IPFSLogEntry
			var aerr, eerr error
			wg.Add(2)
			go func() {
				defer wg.Done()
				for k := 0; k < op.PC && aerr == nil; k++ {
					var e iface.IPFSLogEntry
					if e, aerr = aside.Append(ctx, []byte(fmt.Sprintf("aside-%d-%d", i, k)), &ipfslog.AppendOptions{PointerCount: 4}); aerr == nil {
						here = append(here, e)
					}
				}
			}()
			go func() {
				defer wg.Done()
				for k := 0; k < op.PC && eerr == nil; k++ {
					var e iface.IPFSLogEntry
					if e, eerr = elsewhere.Append(ctx, []byte(fmt.Sprintf("elsewhere-%d-%d", i, k)), &ipfslog.AppendOptions{PointerCount: 4}); eerr == nil {
						there = append(there, e)
					}
				}
			}()
			wg.Wait()
			if aerr != nil || eerr != nil {
				tb.Fatalf("op #%d: appends on two stores at once failed: %v / %v", i, aerr, eerr)
			}
			for _, e := range here {
				if _, ok := w.Store.Raw(e.GetHash()); !ok {
					tb.Fatalf("op #%d: Append returned %s, but the store of its log does not hold the block (another log, on another store, was appended to through the same codec object at the same time)", i, world.Short(e.GetHash().String()))
				}
			}
			for _, e := range there {
				if _, ok := other.Raw(e.GetHash()); !ok {
					tb.Fatalf("op #%d: Append on the second store returned %s, but that store does not hold the block", i, world.Short(e.GetHash().String()))
				}
			}
			twoStores++
			continue
		case "twindeny":
			// a second replica of the same writer that holds exactly the history one committed entry was appended
			// on asks to append the same payload with the same options, and its access controller refuses: the
			// refused entry is (when the heads order is reproducible) the very block the first replica committed
			if len(committed) == 0 {
				continue
			}
			ca := committed[op.B%len(committed)]
			om := entry.NewOrderedMapFromEntries(ca.pre)
			deny := &denyAll{}
			tl, err := ipfslog.NewLog(w.Store.API(), ca.identity, &ipfslog.LogOptions{ID: sim.LogID, Entries: om, AccessController: deny, SortFn: world.SortFn(w.Order), IO: w.IO,
				Clock: entry.NewLamportClock(ca.identity.PublicKey, ca.e.GetClock().GetTime()-1)})
			if err != nil {
				tb.Fatalf("op #%d twin log: %v", i, err)
			}
			writesBefore := w.Store.NumWrites()
			_, err = tl.Append(ctx, ca.e.GetPayload(), &ipfslog.AppendOptions{PointerCount: ca.pc, Pin: ca.pin})
			if err == nil || !deny.asked {
				tb.Fatalf("op #%d: an append refused by the access controller returned %v (controller asked: %v)", i, err, deny.asked)
			}
			if tl.Len() != len(ca.pre) {
				tb.Fatalf("op #%d: a refused append changed the log", i)
			}
			twins++
			if w.Store.NumWrites() == writesBefore && deny.seen == ca.e.GetHash().String() {
				exactTwins++
			}
			continue
		case "failnext":
			if i+1 >= len(p.World.Ops) || (p.World.Ops[i+1].Kind != "append" && p.World.Ops[i+1].Kind != "publish") {
				continue // only appends and publications write blocks
			}
			failArmed = true
			retryArmed = op.Flag == 1
			target := w.Store.NumAdds()
			run, ferr := op.B, injectedErr(op.PC)
			if run < 1 {
				run = 1
			}
			w.Store.SetAddFail(func(nth int, c cid.Cid) error {
				if nth >= target && (nth < target+run || run >= 6) {
					return ferr
				}
				return nil
			})
			continue
		case "publish":
			r := w.Reps[op.A%n]
			before := takeState(r.Log)
			writesBefore := w.Store.NumWrites()
			var c cid.Cid
			var err error
			if pv := storePanic(func() { c, err = r.Log.ToMultihash(opCtx) }); pv != nil {
				// the store died under the write and the panic travelled up to the caller: the operation has not
				// returned anything; for what follows it counts as failed
				err = pv
				panics++
			}
			if opCtx != ctx && err != nil && len(r.Model) > 0 {
				// refused because the caller had given up: fine, provided nothing changed
				if d := before.diff(takeState(r.Log)); d != "" {
					tb.Fatalf("op #%d publish with a cancelled context failed and changed the log: %s", i, d)
				}
				if failArmed { // the write that was to fail was never attempted: the injected failure must not hit a later operation
					failArmed = false
					w.Store.SetAddFail(nil)
				}
				continue
			}
			if len(r.Model) == 0 {
				if err == nil {
					tb.Fatalf("publishing an empty log returned no error")
				}
				if failArmed { // nothing was written: the injected failure must not hit a later operation
					failArmed = false
					w.Store.SetAddFail(nil)
				}
				continue
			}
			if failArmed {
				failArmed = false
				w.Store.SetAddFail(nil)
				nfail++
				if err != nil {
					if w.Store.NumWrites() != writesBefore {
						leftovers++
					}
					if d := before.diff(takeState(r.Log)); d != "" {
						tb.Fatalf("op #%d failed publish changed the log: %s", i, d)
					}
					if !retryArmed {
						continue
					}
					// the caller publishes again at once; the store accepts writes again
					retries++
					pubRetries++
					c, err = r.Log.ToMultihash(ctx)
					if err != nil {
						tb.Fatalf("op #%d publishing again after a failed write: %v", i, err)
					}
					manifests.Add(c.String())
					rets = append(rets, returned{kind: "manifest", c: c, prefix: w.Store.NumWrites(), set: r.Model.Clone(), heads: w.Reg.ModelHeads(r.Model), opIndex: i})
					published[op.A%n] = true
					continue
				}
				// no error although a write failed: legitimate only if the value returned is in the store after all
				// (say, after a retry); it is then held to everything a returned manifest is held to
				if _, ok := w.Store.Raw(c); !ok {
					tb.Fatalf("op #%d publish: the manifest write failed, ToMultihash returned %s without an error and no such block is stored", i, world.Short(c.String()))
				}
			}
			if err != nil {
				tb.Fatalf("op #%d publish failed: %v", i, err)
			}
			manifests.Add(c.String())
			rets = append(rets, returned{kind: "manifest", c: c, prefix: w.Store.NumWrites(), set: r.Model.Clone(), heads: w.Reg.ModelHeads(r.Model), opIndex: i})
			published[op.A%n] = true
			continue
		}
		a := op.A % n
		var before state
		if op.Kind == "append" {
			before = takeState(w.Reps[a].Log)
		}
		writesBefore := w.Store.NumWrites()
		addsBefore := w.Store.NumAdds()
		clockBefore := w.Reps[a].Log.Clock.GetTime()
		w.Ctx = opCtx
		var info *sim.OpInfo
		if pv := storePanic(func() { info = w.Exec(tb, i, op, false) }); pv != nil {
			info = &sim.OpInfo{Index: i, Op: op, Dst: a, Src: -1, Err: pv}
			panics++
		}
		w.Ctx = ctx
		if op.Kind == "append" && opCtx != ctx && info.Err != nil && !failArmed {
			// refused because the caller had given up: fine, provided nothing changed
			if d := before.diff(takeState(w.Reps[a].Log)); d != "" {
				tb.Fatalf("op #%d: an append with a cancelled context failed and changed the log: %s", i, d)
			}
			continue
		}
		if op.Kind == "append" && failArmed {
			failArmed = false
			w.Store.SetAddFail(nil)
			nfail++
			if info.Err != nil {
				if w.Store.NumWrites() != writesBefore {
					leftovers++
				}
				// a log that kept the entry although its block is not stored would publish a manifest naming a missing head
				if d := before.diff(takeState(w.Reps[a].Log)); d != "" {
					tb.Fatalf("op #%d: failed append changed the log: %s", i, d)
				}
				if !retryArmed {
					continue
				}
				// a second replica of the same writer, in the state this one had before the failed append, makes the
				// same append (it produces the very block whose write just failed); the store accepts writes again
				retries++
				r := w.Reps[a]
				tl, err := ipfslog.NewLog(w.Store.API(), r.Log.Identity, &ipfslog.LogOptions{ID: sim.LogID, Entries: r.Log.GetEntries(), SortFn: world.SortFn(w.Order), IO: w.IO,
					Clock: entry.NewLamportClock(r.Log.Identity.PublicKey, clockBefore)})
				if err != nil {
					tb.Fatalf("op #%d twin log: %v", i, err)
				}
				te, err := tl.Append(ctx, []byte(op.Payload), &ipfslog.AppendOptions{PointerCount: op.PC, Pin: op.Pin})
				if err != nil {
					tb.Fatalf("op #%d: the same append on a second replica after the failed write: %v", i, err)
				}
				w.Reg.Record(te)
				set := r.Model.Clone()
				set.Add(te.GetHash().String())
				rets = append(rets, returned{kind: "entry", c: te.GetHash(), prefix: w.Store.NumWrites(), set: set, heads: world.SetOf([]string{te.GetHash().String()}), opIndex: i})
				continue
			}
			// no error although a write failed: legitimate only if the entry's block is in the store after all
			if _, ok := w.Store.Raw(info.Entry.GetHash()); !ok {
				tb.Fatalf("op #%d append: the block write failed, Append returned %s without an error and no such block is stored", i, world.Short(info.Entry.GetHash().String()))
			}
		}
		switch op.Kind {
		case "append", "join":
			sim.MustOK(tb, info)
		}
		if op.Kind == "append" {
			r := w.Reps[a]
			h := info.Entry.GetHash()
			// (how many blocks an append writes is not part of the property; it is reported as evidence. It may be
			// a re-write of an identical block: two replicas of the same writer appending the same payload on
			// the same heads produce the same entry.)
			if w.Store.NumAdds() != addsBefore+1 || w.Store.NumWrites() > writesBefore+1 {
				multiWrite++
			}
			rets = append(rets, returned{kind: "entry", c: h, prefix: w.Store.NumWrites(), set: r.Model.Clone(), heads: world.SetOf([]string{h.String()}), opIndex: i})
			var pre []iface.IPFSLogEntry
			for _, x := range r.Log.GetEntries().Slice() {
				if !x.GetHash().Equals(h) {
					pre = append(pre, x)
				}
			}
			committed = append(committed, committedAppend{e: info.Entry, pre: pre, identity: r.Log.Identity, pc: op.PC, pin: op.Pin})
			in := w.Reg.Get(h.String())
			if len(in.Next) >= 2 {
				mergeAppend = true
			}
			if published[a] {
				pubThenAppend = true
			}
		}
	}
	w.Store.SetAddFail(nil)

	// ---- the library never takes a block away that a stored entry or a returned value still needs
	if rm := w.Store.Removes(); len(rm) > 0 {
		gone := world.Set{}
		for _, c := range rm {
			if _, still := w.Store.Raw(c); !still {
				gone.Add(c.String())
			}
		}
		for _, c := range w.Store.Writes() {
			if gone.Has(c.String()) {
				continue
			}
			if in := w.Reg.Get(c.String()); in != nil {
				for _, l := range append(append([]string{}, in.Next...), in.Refs...) {
					if gone.Has(l) {
						tb.Fatalf("store not causally closed: block %s was removed from the store while entry %s still names it", world.Short(l), world.Short(c.String()))
					}
				}
			}
		}
		for _, rt := range rets {
			if gone.Has(rt.c.String()) {
				tb.Fatalf("%s %s returned by op #%d was removed from the store afterwards", rt.kind, world.Short(rt.c.String()), rt.opIndex)
			}
		}
	}

	// ---- closure at every write prefix: every entry block decodes, and all its next / refs were written before it
	writes := w.Store.Writes()
	index := map[string]int{}
	for i, c := range writes {
		index[c.String()] = i
	}
	nEntries := 0
	for i, c := range writes {
		if manifests.Has(c.String()) {
			// a manifest names only stored blocks
			node, err := w.Store.Prefix(i+1).Dag().Get(ctx, c)
			if err != nil {
				tb.Fatalf("manifest block %s unreadable: %v", world.Short(c.String()), err)
			}
			jl, err := w.IO.DecodeRawJSONLog(node)
			if err != nil {
				tb.Fatalf("manifest block does not decode: %v", err)
			}
			for _, h := range jl.Heads {
				if j, ok := index[h.String()]; !ok || j >= i {
					tb.Fatalf("manifest written at position %d names head %s which is not stored before it", i, world.Short(h.String()))
				}
			}
			continue
		}
		node, err := w.Store.Prefix(i+1).Dag().Get(ctx, c)
		if err != nil {
			tb.Fatalf("block #%d unreadable: %v", i, err)
		}
		e, err := w.IO.DecodeRawEntry(node, c, world.Identity(0).Provider)
		if err != nil {
			if w.Reg.Has(c.String()) {
				tb.Fatalf("entry block #%d does not decode: %v", i, err)
			}
			continue // blocks of the foreign-id helper log are entries too; anything else must be a registered entry
		}
		nEntries++
		for _, l := range append(append([]cid.Cid{}, e.GetNext()...), e.GetRefs()...) {
			if j, ok := index[l.String()]; !ok || j >= i {
				tb.Fatalf("store not causally closed after write #%d: entry %s names %s which is not in the store yet", i, world.Short(c.String()), world.Short(l.String()))
			}
		}
	}

	// ---- every value ever returned loads to the state at the moment it was produced, from the prefix
	// that existed then and from later prefixes
	loads := 0
	total := len(writes)
	for _, rt := range rets {
		prefixes := []int{rt.prefix, total}
		if ev.Thorough() {
			prefixes = nil
			for k := rt.prefix; k <= total; k++ {
				prefixes = append(prefixes, k)
			}
		} else {
			for _, x := range p.Extra {
				if total > rt.prefix {
					prefixes = append(prefixes, rt.prefix+x%(total-rt.prefix+1))
				}
			}
		}
		for _, k := range prefixes {
			api := w.Store.Prefix(k)
			lo := &ipfslog.LogOptions{ID: sim.LogID, SortFn: world.SortFn(w.Order), IO: w.IO}
			var l *ipfslog.IPFSLog
			var err error
			if rt.kind == "entry" {
				l, err = ipfslog.NewFromEntryHash(ctx, api, world.Identity(7), rt.c, lo, &ipfslog.FetchOptions{})
			} else {
				l, err = ipfslog.NewFromMultihash(ctx, api, world.Identity(7), rt.c, lo, &ipfslog.FetchOptions{})
			}
			loads++
			where := fmt.Sprintf("%s %s returned by op #%d (store had %d blocks), loaded from the first %d of %d blocks", rt.kind, world.Short(rt.c.String()), rt.opIndex, rt.prefix, k, total)
			if err != nil {
				tb.Fatalf("%s: %v", where, err)
			}
			got := world.SetOf(world.Hashes(l.GetEntries()))
			if !got.Equal(rt.set) {
				tb.Fatalf("%s: %d entries, the log had %d when the value was returned", where, len(got), len(rt.set))
			}
			if hs := world.SetOf(world.Hashes(l.Heads())); !hs.Equal(rt.heads) {
				tb.Fatalf("%s: heads %v, want %v", where, world.Shorts(hs.Sorted()), world.Shorts(rt.heads.Sorted()))
			}
			if w.Reg.StrictTotalOn(w.Order, rt.set) {
				if vals := world.Hashes(l.Values()); !world.EqualStrings(vals, w.Reg.RefSort(w.Order, rt.set)) {
					tb.Fatalf("%s: values differ from the state at return time", where)
				}
			}
		}
		// a crash just before the operation returned loses at most that operation: the previous prefix is still closed (checked above)
	}
	ev.Get("C17").AddExtra("write_prefixes_checked", total)
	ev.Get("C17").AddExtra("loads_from_prefixes", loads)
	ev.Get("C17").AddExtra("concurrent_twin_appends_of_one_block", races)
	ev.Get("C17").AddExtra("store_panics_that_reached_the_caller", panics)
	ev.Get("C17").AddExtra("episodes_of_appends_on_two_stores_at_once", twoStores)
	ev.Get("C17").AddExtra("operations_issued_with_a_cancelled_context", cancelled)
	ev.Get("C17").AddExtra("injected_write_failures", nfail)
	ev.Get("C17").AddExtra("operations_repeated_right_after_a_failed_write", retries)
	ev.Get("C17").AddExtra("publications_repeated_right_after_a_failed_write", pubRetries)
	ev.Get("C17").AddExtra("failed_operations_that_left_other_blocks", leftovers)
	ev.Get("C17").AddExtra("appends_issuing_other_than_one_block_write", multiWrite)
	ev.Get("C17").AddExtra("refused_twin_appends", twins)
	ev.Get("C17").AddExtra("refused_twin_appends_reproducing_a_committed_block", exactTwins)
	cl := []string{}
	if mergeAppend {
		cl = append(cl, "merge-append")
	}
	if pubThenAppend {
		cl = append(cl, "append-after-publication")
	}
	if nfail > 0 {
		cl = append(cl, "write-failure")
	}
	if exactTwins > 0 {
		cl = append(cl, "refused-append-reproduces-committed-block")
	}
	return ev.Result{NonTrivial: mergeAppend && pubThenAppend, Classes: cl}
}

type committedAppend struct {
	e        iface.IPFSLogEntry
	pre      []iface.IPFSLogEntry
	identity *idp.Identity
	pc       int
	pin      bool
}

// denyAll refuses every append and remembers what it was asked about.
type denyAll struct {
	asked bool
	seen  string
}

func (d *denyAll) CanAppend(e accesscontroller.LogEntry, _ idp.Interface, _ accesscontroller.CanAppendAdditionalContext) error {
	d.asked = true
	if he, ok := e.(iface.IPFSLogEntry); ok {
		d.seen = he.GetHash().String()
	}
	return errors.New("denied by the harness access controller")
}

type state struct {
	entries, heads []string
}

func takeState(l *ipfslog.IPFSLog) state {
	return state{entries: world.SortedCopy(world.Hashes(l.GetEntries())), heads: world.SortedCopy(world.Hashes(l.Heads()))}
}

func (a state) diff(b state) string {
	if !world.EqualStrings(a.entries, b.entries) {
		return "entries changed"
	}
	if !world.EqualStrings(a.heads, b.heads) {
		return "heads changed"
	}
	return ""
}

func TestC17(t *testing.T) {
	c := ev.Get("C17")
	c.Level = "fault_enumeration"
	c.Rule = "a generated multi-replica program over ONE shared store (which copies the bytes it is handed or, in half of the programs, keeps the very slices like in-memory datastores do; appends with skip references, unbounded merges, identity changes, default or link-key codec) interleaved with manifest publications, injected block-write failures (1, 2 or 3 writes in a row or every write until the operation has returned; reported as a plain error, as an error that calls itself a timeout, as a deadline error, as a wrapped timeout - or not reported at all: the storage layer panics under the write (a panic that reaches the caller counts as a failed operation); half of them followed at once by the same operation again: the publication repeated, the append made by a second replica of the same writer in the same state) appends that an access controller refuses although they reproduce a committed block, appends / publications issued with an already cancelled context (whatever they return without an error must be stored), episodes in which a log on ANOTHER store is appended to through the same codec object while a log on this store is (what each Append returns must be in the store of its log), and two replicas of one writer appending the same entry at the same time while the first write of the block is held inside the store (what the second returns must be stored already). Crash points are the boundaries between block writes of the fake store (every Dag().Add of the library is one atomic step): for EVERY write prefix of the history every entry block must decode and name only blocks written before it, and every manifest only stored heads. Every value returned to a caller (each append's hash, each manifest CID) is loaded from the store truncated to the prefix that existed when it was returned, from the final store and from further prefixes (all later prefixes in the thorough tier, 2 generated ones in quick) and must give exactly the entry set / heads / values of the log at that moment. An operation whose block write fails must either return an error and leave entries and heads unchanged, or return a value whose block is stored after all (it is then held to the same loads). Non-trivial = history with a merge-append (entry with >= 2 predecessors) and an append after a publication by the same replica; distinct = distinct program."
	c.Assumptions = []string{"replicas share one store (the statement's setting); block writes are atomic", "the clock bump of a failed append is not part of the observable state checked (entries and heads are)"}
	ev.Check(t, "C17", genC17, runC17)
}
