package load

import (
	"context"
	"fmt"
	"testing"
	"time"

	"github.com/ipfs/go-cid"
	coreiface "github.com/ipfs/kubo/core/coreiface"

	ipfslog "berty.tech/go-ipfs-log"
	"berty.tech/go-ipfs-log/iface"

	"verifharness/ev"
	"verifharness/loadsim"
	"verifharness/sim"
	"verifharness/world"
)

func TestMain(m *testing.M) { ev.Main(m) }

var loaderNames = []string{"manifest", "json", "entries", "hash"}

type loadSpec struct {
	Loader      int   `json:"loader"`      // index into loaderNames
	Concurrency int   `json:"concurrency"` // 0 = default
	Schedule    []int `json:"schedule"`
	Gated       bool  `json:"gated"`
}

// doLoad runs one loader against api. start: for "entries" the supplied entries, for "hash" the entry hash.
// loadExtra are optional fetch options that must not change the outcome of a load.
type loadExtra struct {
	Known   []iface.IPFSLogEntry // entries the caller says it already has (FetchOptions.Exclude)
	Timeout time.Duration        // a generous timeout
	SortFn  bool                 // pass the log's ordering as FetchOptions.SortFn (manifest and entry-hash loaders)
	// Progress: pass a progress channel that a goroutine drains; what it reported is left in Reported
	Progress bool
	Reported *[]string
	// DefaultIO: leave LogOptions.IO unset when the log uses the default codec (the loaders then pick the default themselves)
	DefaultIO bool
	// LogOpts: the caller keeps ONE LogOptions value and hands it to every load it makes (the loaders and NewLog fill
	// in their defaults through the pointer; the next load gets the same value again)
	LogOpts *ipfslog.LogOptions
	// FetchOpts / FetchOptsL: likewise ONE fetch-options value per options type for every load; the caller sets the
	// fields it uses before each load and never touches the others (IO in particular)
	FetchOpts  *iface.FetchOptions
	FetchOptsL *ipfslog.FetchOptions
}

func doLoad(ctx context.Context, api coreiface.CoreAPI, w *sim.World, loader string, manifest cid.Cid, jsonLog *iface.JSONLog, entries []iface.IPFSLogEntry, hash cid.Cid, length *int, conc int, exclude iface.ExcludeFunc, timeout int, extra ...loadExtra) (*ipfslog.IPFSLog, error) {
	lo := &ipfslog.LogOptions{ID: sim.LogID, SortFn: world.SortFn(w.Order), IO: w.IO}
	id := world.Identity(7)
	var x loadExtra
	if len(extra) > 0 {
		x = extra[0]
	}
	if x.LogOpts != nil {
		lo = x.LogOpts
	} else if x.DefaultIO && world.Codec(w.Prog.Codec) == world.CodecDefault {
		lo.IO = nil
	}
	var fsort iface.EntrySortFn
	if x.SortFn {
		fsort = world.SortFn(w.Order)
	}
	var progress chan iface.IPFSLogEntry
	done := make(chan struct{})
	if x.Progress {
		progress = make(chan iface.IPFSLogEntry) // unbuffered: the fetcher hands every entry over
		go func() {
			defer close(done)
			for e := range progress {
				if x.Reported != nil && e != nil {
					*x.Reported = append(*x.Reported, e.GetHash().String())
				}
			}
		}()
		defer func() { close(progress); <-done }()
	}
	fl := &ipfslog.FetchOptions{}
	if x.FetchOptsL != nil {
		fl = x.FetchOptsL
	}
	fi := &iface.FetchOptions{}
	if x.FetchOpts != nil {
		fi = x.FetchOpts
	}
	switch loader {
	case "manifest":
		fl.Length, fl.Concurrency, fl.ShouldExclude, fl.Exclude, fl.Timeout, fl.SortFn, fl.ProgressChan = length, conc, exclude, x.Known, x.Timeout, fsort, progress
		return ipfslog.NewFromMultihash(ctx, api, id, manifest, lo, fl)
	case "json":
		fi.Length, fi.Concurrency, fi.Timeout, fi.ProgressChan = length, conc, x.Timeout, progress
		return ipfslog.NewFromJSON(ctx, api, id, jsonLog, lo, fi)
	case "entries":
		fi.Length, fi.Concurrency, fi.Exclude, fi.Timeout, fi.ProgressChan = length, conc, x.Known, x.Timeout, progress
		return ipfslog.NewFromEntry(ctx, api, id, entries, lo, fi)
	case "hash":
		fl.Length, fl.Concurrency, fl.ShouldExclude, fl.Exclude, fl.Timeout, fl.SortFn, fl.ProgressChan = length, conc, exclude, x.Known, x.Timeout, fsort, progress
		return ipfslog.NewFromEntryHash(ctx, api, id, hash, lo, fl)
	}
	return nil, fmt.Errorf("harness: unknown loader %s", loader)
}

// gatedOrPlain runs fn under the completion-order controller (or directly).
func gatedOrPlain(tb ev.TB, coll *ev.Collector, w *sim.World, spec loadSpec, fn func()) loadsim.Result {
	if !spec.Gated {
		fn()
		return loadsim.Result{Done: true}
	}
	var order []string
	coll.ReplayAnnotation("completion_order", &order)
	res := loadsim.Run(w.Store, loadsim.Options{Schedule: spec.Schedule, Order: order}, fn)
	coll.Annotate("completion_order", res.Released)
	if res.Hang {
		tb.Fatalf("load did not return although every request was answered (hang); goroutines:\n%s", trim(res.HangDump, 3000))
	}
	return res
}

// permuteHeads returns the head list in a generated order and, for the manifest loader, the CID of a
// manifest that lists them in that order (any published order is legitimate input for a loader).
func permuteHeads(tb ev.TB, w *sim.World, jl *iface.JSONLog, choices []int) (*iface.JSONLog, cid.Cid) {
	hs := append([]cid.Cid(nil), jl.Heads...)
	if len(choices) == 0 {
		choices = []int{0}
	}
	for i := len(hs) - 1; i > 0; i-- {
		j := choices[i%len(choices)] % (i + 1)
		hs[i], hs[j] = hs[j], hs[i]
	}
	out := &iface.JSONLog{ID: jl.ID, Heads: hs}
	c, err := w.IO.Write(context.Background(), w.Store.API(), out, nil)
	if err != nil {
		tb.Fatalf("harness: writing manifest: %v", err)
	}
	return out, c
}

func trim(s string, n int) string {
	if len(s) > n {
		return s[:n]
	}
	return s
}

func hasRefs(w *sim.World, s world.Set) bool {
	for h := range s {
		if len(w.Reg.Get(h).Refs) > 0 {
			return true
		}
	}
	return false
}
