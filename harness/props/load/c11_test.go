package load

import (
	"context"
	"fmt"
	"testing"
	"time"

	"github.com/ipfs/go-cid"
	mh "github.com/multiformats/go-multihash"
	"pgregory.net/rapid"

	ipfslog "berty.tech/go-ipfs-log"
	"berty.tech/go-ipfs-log/entry"
	"berty.tech/go-ipfs-log/iface"

	"verifharness/ev"
	"verifharness/fakeipfs"
	"verifharness/loadsim"
	"verifharness/sim"
	"verifharness/world"
)

type faultSpec struct {
	Ix   int    `json:"ix"`   // index into the log's entries (mod)
	Kind string `json:"kind"` // absent | error | junk | wrongshape | stall | slow | deadline | canceled (the store's own deadline / cancellation, reported for one block)
}

type c11Prog struct {
	World       sim.Prog    `json:"world"`
	Replica     int         `json:"replica"`
	Merge       bool        `json:"merge"`
	Faults      []faultSpec `json:"faults"`
	Exclude     []int       `json:"exclude"`
	Concurrency int         `json:"concurrency"`
	Schedule    []int       `json:"schedule"`
	TimeoutMs   int         `json:"timeoutMs"` // used only when a block stalls; 0 = the harness cancels the context
	Start       string      `json:"start"`     // heads | any
	StartIx     []int       `json:"startIx"`
	Dup         bool        `json:"dup"`     // request one start hash twice
	Unknown     bool        `json:"unknown"` // request a CID that is not stored
	// SlowChain > 0: instead of the above, a plain chain of that many entries whose every block takes a while to
	// arrive, loaded with a timeout much shorter than the sum of the delays (real time, no gate)
	SlowChain int `json:"slowChain,omitempty"`
}

var faultKinds = []string{"absent", "error", "junk", "wrongshape", "stall", "slow", "absent", "error", "junk", "slow", "deadline", "canceled"}

func genC11(t *rapid.T) c11Prog {
	cfg := sim.GenConfig{MaxReplicas: 4, MaxOps: ev.Scale(28, 60), MinOps: 3, Codecs: []int{0}, AppendBias: 3, NoRebuild: true, LargeOneIn: ev.Scale(128, 96)}
	w := sim.Gen(t, cfg)
	// more skip references: alternative paths around faulty blocks
	for i := range w.Ops {
		if w.Ops[i].Kind == "append" && w.Ops[i].PC < 2 && rapid.Bool().Draw(t, "morerefs") {
			w.Ops[i].PC = rapid.SampledFrom([]int{4, 8, 16, 64}).Draw(t, "pc2")
		}
	}
	p := c11Prog{World: w, Replica: rapid.IntRange(0, 11).Draw(t, "replica"), Merge: rapid.IntRange(0, 3).Draw(t, "merge") > 0}
	nf := rapid.IntRange(0, 4).Draw(t, "nfaults")
	for i := 0; i < nf; i++ {
		p.Faults = append(p.Faults, faultSpec{Ix: rapid.IntRange(0, 1<<12).Draw(t, "fix"), Kind: rapid.SampledFrom(faultKinds).Draw(t, "fkind")})
	}
	p.Exclude = rapid.SliceOfN(rapid.IntRange(0, 1<<12), 0, 3).Draw(t, "exclude")
	p.Concurrency = rapid.SampledFrom([]int{0, 1, 2, 3, 16}).Draw(t, "concurrency")
	p.Schedule = rapid.SliceOfN(rapid.IntRange(0, 7), 1, 12).Draw(t, "schedule")
	p.TimeoutMs = rapid.SampledFrom([]int{0, 20, 50, 100}).Draw(t, "timeout")
	p.Start = rapid.SampledFrom([]string{"heads", "heads", "any"}).Draw(t, "start")
	p.StartIx = rapid.SliceOfN(rapid.IntRange(0, 1<<12), 1, 3).Draw(t, "startIx")
	p.Dup = rapid.IntRange(0, 3).Draw(t, "dup") == 0
	p.Unknown = rapid.IntRange(0, 3).Draw(t, "unknown") == 0
	if rapid.IntRange(0, 39).Draw(t, "slowchain") == 27 {
		p.SlowChain = rapid.IntRange(12, 16).Draw(t, "chain")
	}
	return p
}

// C11 — fetching tolerates missing, failing and slow blocks and always terminates.
func runC11(tb ev.TB, p c11Prog) ev.Result {
	coll := ev.Get("C11")
	if p.SlowChain > 0 {
		return runSlowChain(tb, p)
	}
	w := sim.Run(tb, &p.World, func(tb ev.TB, w *sim.World, info *sim.OpInfo) {
		switch info.Op.Kind {
		case "append", "join":
			sim.MustOK(tb, info)
		}
	})
	ri := p.Replica % len(w.Reps)
	if p.Replica%3 != 0 {
		best := -1
		for i, x := range w.Reps {
			if n := len(x.Model); n > best {
				best, ri = n, i
			}
		}
	}
	if p.Merge {
		for i := range w.Reps {
			if i != ri {
				sim.MustOK(tb, w.Exec(tb, -1, sim.Op{Kind: "join", A: ri, B: i}, false))
			}
		}
	}
	r := w.Reps[ri]
	if len(r.Model) == 0 {
		return ev.Result{Classes: []string{"empty-world"}}
	}
	all := r.Model.Sorted()
	cidOf := func(h string) cid.Cid { return w.Reg.Get(h).Cid }

	// ---- fault plan
	fault := map[string]string{}
	for _, f := range p.Faults {
		h := all[f.Ix%len(all)]
		if _, dup := fault[h]; !dup {
			fault[h] = f.Kind
		}
	}
	saved := map[string][]byte{}
	stalls := false
	for h, k := range fault {
		c := cidOf(h)
		switch k {
		case "absent":
			w.Store.SetFault(c, fakeipfs.FaultAbsent)
		case "error":
			w.Store.SetFault(c, fakeipfs.FaultError)
		case "deadline":
			w.Store.SetFault(c, fakeipfs.FaultDeadline)
		case "canceled":
			w.Store.SetFault(c, fakeipfs.FaultCanceled)
		case "stall":
			w.Store.SetFault(c, fakeipfs.FaultStall)
			stalls = true
		case "junk":
			saved[h], _ = w.Store.Raw(c)
			w.Store.PutRaw(c, []byte{0xa1, 0x61, 0x78, 0xff, 0xff, 0x00})
		case "wrongshape":
			saved[h], _ = w.Store.Raw(c)
			w.Store.PutRaw(c, []byte{0xa2, 0x62, 'i', 'd', 0x61, 'A', 0x65, 'h', 'e', 'a', 'd', 's', 0x80}) // a manifest, not an entry
		}
	}
	excluded := world.Set{}
	for _, ix := range p.Exclude {
		excluded.Add(all[ix%len(all)])
	}
	shouldExclude := func(c cid.Cid) bool { return excluded.Has(c.String()) }

	// ---- start hashes
	var start []string
	if p.Start == "heads" {
		start = world.Hashes(r.Log.Heads())
	} else {
		seen := world.Set{}
		for _, ix := range p.StartIx {
			h := all[ix%len(all)]
			if !seen.Has(h) {
				seen.Add(h)
				start = append(start, h)
			}
		}
	}
	var hashes []cid.Cid
	for _, h := range start {
		hashes = append(hashes, cidOf(h))
	}
	if p.Dup {
		hashes = append(hashes, hashes[0])
	}
	if p.Unknown {
		u, _ := cid.V1Builder{Codec: cid.DagCBOR, MhType: mh.SHA2_256}.Sum([]byte(fmt.Sprintf("verif-unknown-%d", p.Replica)))
		hashes = append(hashes, u)
	}

	// ---- expected: reachable from the start along next ∪ refs through retrievable, non-excluded entries
	bad := func(h string) bool {
		k, ok := fault[h]
		return ok && k != "slow"
	}
	expected := w.Reg.PastAll(start, func(h string) bool { return r.Model.Has(h) && !bad(h) && !excluded.Has(h) })
	// (entries of other replicas are in the shared store too, but everything reachable from r's entries is in r)

	// ---- run
	w.Store.ResetGets()
	timeout := time.Duration(0)
	if stalls && p.TimeoutMs > 0 {
		timeout = time.Duration(p.TimeoutMs) * time.Millisecond
	}
	base := context.Background()
	if p.Replica%3 == 1 {
		// the caller's context has a deadline of its own, far away: the configured timeout still applies
		var cancelBase context.CancelFunc
		base, cancelBase = context.WithTimeout(base, 30*time.Minute)
		defer cancelBase()
	}
	ctx, cancel := context.WithCancel(base)
	defer cancel()
	cancelled := false
	var result []iface.IPFSLogEntry
	var order []string
	coll.ReplayAnnotation("completion_order", &order)
	fetchIO := w.IO
	if p.Replica%2 == 1 && world.Codec(w.Prog.Codec) == world.CodecDefault {
		fetchIO = nil // the fetcher then uses the default codec by itself
	}
	res := loadsim.Run(w.Store, loadsim.Options{
		Schedule: p.Schedule,
		Order:    order,
		Slow:     func(c string) bool { return fault[c] == "slow" },
		OnQuiet: func() bool {
			// only stalled reads are left: without a configured timeout the caller ends the context
			if stalls && timeout == 0 && !cancelled {
				cancelled = true
				cancel()
				return true
			}
			return false
		},
	}, func() {
		result = entry.FetchParallel(ctx, w.Store.API(), hashes, &iface.FetchOptions{
			Concurrency:   p.Concurrency,
			Timeout:       timeout,
			ShouldExclude: shouldExclude,
			IO:            fetchIO,
		})
	})
	coll.Annotate("completion_order", res.Released)
	// restore the store for shrinking re-runs (the world is rebuilt per case anyway)
	for h, b := range saved {
		w.Store.PutRaw(cidOf(h), b)
	}
	w.Store.ClearFaults()

	where := fmt.Sprintf("fetch of %d start hashes over %d entries, faults %v, %d excluded, concurrency %d", len(hashes), len(all), faultSummary(fault), len(excluded), p.Concurrency)
	if res.Hang {
		tb.Fatalf("%s: did not terminate although every outstanding read was answered; goroutines:\n%s", where, trim(res.HangDump, 3000))
	}
	if res.Inconclusive != "" || !res.Done {
		return ev.Result{Classes: []string{"inconclusive"}}
	}
	if timeout > 0 && cancelled {
		tb.Fatalf("%s: with a %v timeout configured the fetch only returned after the caller cancelled", where, timeout)
	}
	// (b) no duplicates in the result
	got := world.Set{}
	for _, e := range result {
		h := e.GetHash().String()
		if got.Has(h) {
			tb.Fatalf("%s: entry %s returned twice", where, world.Short(h))
		}
		got.Add(h)
	}
	// (c) reads: nothing excluded, nothing twice
	seenGet := world.Set{}
	for _, c := range w.Store.Gets() {
		h := c.String()
		if excluded.Has(h) {
			tb.Fatalf("%s: excluded hash %s was requested from the store", where, world.Short(h))
		}
		if seenGet.Has(h) {
			tb.Fatalf("%s: hash %s was requested twice", where, world.Short(h))
		}
		seenGet.Add(h)
	}
	// (d) exactly the reachable set (⊆ when a stall / timeout may cut the walk anywhere)
	for h := range got {
		if !expected.Has(h) {
			tb.Fatalf("%s: returned %s which is not reachable through retrievable, non-excluded entries (fault: %q, excluded: %v)", where, world.Short(h), fault[h], excluded.Has(h))
		}
	}
	if !stalls {
		for h := range expected {
			if !got.Has(h) {
				tb.Fatalf("%s: reachable entry %s (time %d) was not returned; returned %d of %d", where, world.Short(h), w.Reg.Get(h).Time, len(got), len(expected))
			}
		}
	}
	// non-trivial: a faulty block strictly inside with a healthy way around it
	around := false
	heads := world.SetOf(start)
	for h, k := range fault {
		if k == "slow" || heads.Has(h) || !r.Model.Has(h) {
			continue
		}
		// some expected entry lies strictly below the faulty block
		below := w.Reg.Past(w.Reg.Get(h).Next, r.Model)
		for x := range below {
			if expected.Has(x) {
				around = true
			}
		}
	}
	cl := []string{}
	for _, k := range fault {
		cl = append(cl, "fault-"+k)
	}
	if len(excluded) > 0 {
		cl = append(cl, "excluded")
	}
	if around {
		cl = append(cl, "path-around-fault")
	}
	if res.OutOfOrder > 0 {
		cl = append(cl, "out-of-order-completion")
	}
	if stalls {
		if timeout > 0 {
			cl = append(cl, "stall-with-timeout")
		} else {
			cl = append(cl, "stall-cancelled-by-caller")
		}
	}
	conc := p.Concurrency
	if conc == 0 {
		conc = 32
	}
	return ev.Result{NonTrivial: around && conc >= 2, Classes: cl}
}

func faultSummary(f map[string]string) map[string]int {
	o := map[string]int{}
	for _, k := range f {
		o[k]++
	}
	return o
}

func TestC11(t *testing.T) {
	c := ev.Get("C11")
	c.Rule = "a generated multi-replica program (extra skip references) stores a DAG; a fault plan (0-4 blocks: absent, Get error, undecodable bytes, decodes to a manifest instead of an entry, stalls until the context ends, slow = completes last), an exclusion set (ShouldExclude), concurrency in {default,1,2,3,16}, start hashes (heads or 1-3 arbitrary entries, optionally one duplicated and one unknown CID) and a completion schedule are drawn. entry.FetchParallel runs under the gated store; a real timeout (20-100 ms) is configured only when a block stalls, otherwise (or with timeout 0) the harness cancels the context once only stalled reads remain. Oracles: the call returns (hang = no outstanding read, 3 s of store silence and a goroutine dump showing the fetcher parked); no hash twice in the result; the store's read log contains no excluded hash and no hash twice; result == entries reachable from the start along next ∪ refs through retrievable, non-excluded entries (⊆ when a stall may cut the walk). Non-trivial = a faulty block strictly inside the DAG with a healthy path around it and concurrency >= 2; distinct = distinct program."
	c.Assumptions = []string{"'excluded' means FetchOptions.ShouldExclude, the only exclusion the fetcher consults", "termination is observed, not proved: a hang verdict needs quiescence plus a goroutine dump, anything else is inconclusive", "with a stalling block the time bound itself is not asserted (no wall-clock oracle), only that the call returns without the caller cancelling"}
	ev.Check(t, "C11", genC11, runC11)
}

// runSlowChain: "terminates within the configured timeout when one is given" also when no single block is slower
// than the timeout but their sum is. Real time: every block of a plain chain takes 120 ms, the timeout is 200 ms,
// the load must be back well before the 1.4+ s the whole chain would take. A verdict needs three slow runs in a row
// (a scheduling hiccup of a loaded machine does not repeat, a defect does).
func runSlowChain(tb ev.TB, p c11Prog) ev.Result {
	ctx := context.Background()
	st := fakeipfs.NewStore()
	l, err := world.NewLog(st.API(), 0, sim.LogID, world.OrderLWW, world.IO(world.CodecDefault, 0), nil)
	if err != nil {
		tb.Fatalf("harness: %v", err)
	}
	held := world.Set{}
	var head cid.Cid
	for i := 0; i < p.SlowChain; i++ {
		e, err := l.Append(ctx, []byte{byte('a' + i)}, &ipfslog.AppendOptions{PointerCount: 1})
		if err != nil {
			tb.Fatalf("harness: %v", err)
		}
		held.Add(e.GetHash().String())
		head = e.GetHash()
	}
	const delay, timeout, bound = 120 * time.Millisecond, 200 * time.Millisecond, 1100 * time.Millisecond
	st.SetDelay(delay)
	defer st.SetDelay(0)
	var elapsed time.Duration
	for attempt := 0; attempt < 3; attempt++ {
		t0 := time.Now()
		fctx := ctx
		if p.Replica%2 == 1 {
			var cancelF context.CancelFunc
			fctx, cancelF = context.WithTimeout(ctx, 30*time.Minute) // a caller's own, distant deadline
			defer cancelF()
		}
		result := entry.FetchParallel(fctx, st.API(), []cid.Cid{head}, &iface.FetchOptions{Concurrency: p.Concurrency, Timeout: timeout, IO: world.IO(world.CodecDefault, 0)})
		elapsed = time.Since(t0)
		seen := world.Set{}
		for _, e := range result {
			h := e.GetHash().String()
			if seen.Has(h) || !held.Has(h) {
				tb.Fatalf("slow chain: entry %s returned twice or not part of the log", world.Short(h))
			}
			seen.Add(h)
		}
		if elapsed <= bound {
			return ev.Result{NonTrivial: true, Classes: []string{"slow-chain-with-timeout"}}
		}
	}
	tb.Fatalf("a load with a %v timeout over a chain of %d blocks that take %v each returned after %v (three times in a row more than %v): the timeout does not bound the load", timeout, p.SlowChain, delay, elapsed, bound)
	return ev.Result{}
}
