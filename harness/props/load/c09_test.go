package load

import (
	"context"
	"fmt"
	"testing"
	"time"

	"github.com/ipfs/go-cid"
	"pgregory.net/rapid"

	ipfslog "berty.tech/go-ipfs-log"
	"berty.tech/go-ipfs-log/iface"

	"verifharness/ev"
	"verifharness/sim"
	"verifharness/world"
)

type c09Prog struct {
	World     sim.Prog   `json:"world"`
	Replica   int        `json:"replica"`
	Loads     []loadSpec `json:"loads"`
	Merge     bool       `json:"merge"`               // the chosen replica first merges the others (multi-headed state)
	HeadPerm  []int      `json:"headPerm,omitempty"`  // order in which the published head list names the heads (empty: the log's own order)
	Known     []int      `json:"known,omitempty"`     // entries passed as FetchOptions.Exclude ("already have")
	Timeout   bool       `json:"timeout,omitempty"`   // pass a generous fetch timeout (must not change anything)
	FSort     bool       `json:"fsort,omitempty"`     // pass the ordering as FetchOptions.SortFn
	Shared    bool       `json:"shared,omitempty"`    // the caller hands the SAME head slice to every load instead of a copy
	Progress  bool       `json:"progress,omitempty"`  // pass a (drained) progress channel
	NoIO      bool       `json:"noIO,omitempty"`      // default codec: leave LogOptions.IO unset
	Slow      int        `json:"slow,omitempty"`      // k > 0: one block of the log (the k-th, mod) takes 2.6 s to be read during the first ungated load - slow, not missing: nobody set a deadline, so the load waits for it
	Rival     int        `json:"rival,omitempty"`     // k > 0: while an ungated load runs, another load of the same heads runs in the same process and gives up (deadline) after about k block reads; every read takes 1 ms meanwhile. What the rival does is no business of the load under test
	ReuseOpts int        `json:"reuseOpts,omitempty"` // k > 0: the caller keeps one LogOptions value for all its loads, and has used it before: for a load of the history below the k-th (mod) entry of the log, through the k-th (mod 4) loader
	Earlier   int        `json:"earlier,omitempty"`   // 0: the log is published once; k > 0: every replica also published after each k-th operation of the history (and before the final merges)
}

func genLoadSpec(t *rapid.T) loadSpec {
	return loadSpec{
		Loader:      rapid.IntRange(0, 3).Draw(t, "loader"),
		Concurrency: rapid.SampledFrom([]int{0, 1, 2, 3, 16}).Draw(t, "concurrency"),
		Schedule:    rapid.SliceOfN(rapid.IntRange(0, 7), 1, 12).Draw(t, "schedule"),
		Gated:       rapid.IntRange(0, 3).Draw(t, "gated") > 0,
	}
}

func genC09(t *rapid.T) c09Prog {
	cfg := sim.GenConfig{MaxReplicas: 4, MaxOps: ev.Scale(28, 60), MinOps: 2, Codecs: []int{0, 1}, AppendBias: 2, LargeOneIn: ev.Scale(96, 64), WithLoad: true, ContinuedOneIn: 5}
	w := sim.Gen(t, cfg)
	p := c09Prog{World: w, Replica: rapid.IntRange(0, 11).Draw(t, "replica")}
	p.Merge = rapid.Bool().Draw(t, "merge")
	if rapid.Bool().Draw(t, "permuteHeads") {
		p.HeadPerm = rapid.SliceOfN(rapid.IntRange(0, 7), 1, 6).Draw(t, "headPerm")
	}
	if rapid.IntRange(0, 2).Draw(t, "withKnown") == 0 {
		p.Known = rapid.SliceOfN(rapid.IntRange(0, 1<<12), 1, 3).Draw(t, "known")
	}
	p.Timeout = rapid.IntRange(0, 2).Draw(t, "withTimeout") == 0
	p.FSort = rapid.Bool().Draw(t, "fsort")
	p.Shared = rapid.Bool().Draw(t, "sharedInputs")
	p.Progress = rapid.IntRange(0, 2).Draw(t, "progress") == 0
	p.NoIO = rapid.IntRange(0, 2).Draw(t, "noIO") == 0
	p.Earlier = rapid.SampledFrom([]int{0, 0, 1, 2, 3}).Draw(t, "earlierPublications")
	if rapid.IntRange(0, 5).Draw(t, "withRival") == 4 {
		p.Rival = rapid.IntRange(1, 12).Draw(t, "rival")
	}
	if rapid.IntRange(0, 249).Draw(t, "withSlowBlock") == 166 {
		p.Slow = rapid.IntRange(1, 1<<10).Draw(t, "slowBlock")
	}
	n := rapid.IntRange(1, 3).Draw(t, "nloads")
	for i := 0; i < n; i++ {
		p.Loads = append(p.Loads, genLoadSpec(t))
	}
	if rapid.IntRange(0, 3).Draw(t, "reuseOpts") == 0 {
		p.ReuseOpts = rapid.IntRange(1, 1<<12).Draw(t, "reuseOptsK")
	}
	return p
}

// C09 — a log rebuilt from its published heads equals the original.
func runC09(tb ev.TB, p c09Prog) ev.Result {
	coll := ev.Get("C09")
	ctx := context.Background()
	w := sim.Run(tb, &p.World, func(tb ev.TB, w *sim.World, info *sim.OpInfo) {
		switch info.Op.Kind {
		case "append", "join", "rebuild":
			sim.MustOK(tb, info)
		}
		// logs are published along the way too: what is loaded at the end is the LAST publication
		if p.Earlier > 0 && info.Index%p.Earlier == 0 && info.Dst >= 0 && info.Dst < len(w.Reps) {
			if x := w.Reps[info.Dst]; len(x.Model) > 0 {
				if _, err := x.Log.ToMultihash(ctx); err != nil {
					tb.Fatalf("op #%d: ToMultihash failed: %v", info.Index, err)
				}
			}
		}
	})
	if p.Earlier > 0 {
		for _, x := range w.Reps {
			if len(x.Model) > 0 {
				if _, err := x.Log.ToMultihash(ctx); err != nil {
					tb.Fatalf("ToMultihash failed: %v", err)
				}
			}
		}
	}
	// pick the requested replica, or the next non-empty one
	ri := p.Replica % len(w.Reps)
	if p.Replica%3 != 0 { // 2 of 3 cases: the replica with the most heads
		best := -1
		for i, x := range w.Reps {
			if n := len(w.Reg.ModelHeads(x.Model)); n > best {
				best, ri = n, i
			}
		}
	}
	for k := 0; k < len(w.Reps) && len(w.Reps[ri].Model) == 0; k++ {
		ri = (ri + 1) % len(w.Reps)
	}
	if p.Merge {
		for i := range w.Reps {
			if i != ri {
				sim.MustOK(tb, w.Exec(tb, -1, sim.Op{Kind: "join", A: ri, B: i}, false))
			}
		}
	}
	if p.World.Continued > 0 && len(w.Reps[ri].Model) <= p.World.Continued {
		// a log that continues another log's history: the state that is published holds at least one entry of its own
		sim.MustOK(tb, w.Exec(tb, -1, sim.Op{Kind: "append", A: ri, Payload: "continued"}, false))
	}
	r := w.Reps[ri]
	if len(r.Model) == 0 {
		return ev.Result{Classes: []string{"empty-world"}}
	}
	heads := r.Log.Heads().Slice()
	manifest, err := r.Log.ToMultihash(ctx)
	if err != nil {
		tb.Fatalf("ToMultihash failed: %v", err)
	}
	jsonLog := r.Log.ToJSONLog()
	if len(p.HeadPerm) > 0 {
		jsonLog, manifest = permuteHeads(tb, w, jsonLog, p.HeadPerm)
		hm := map[string]iface.IPFSLogEntry{}
		for _, h := range heads {
			hm[h.GetHash().String()] = h
		}
		heads = heads[:0:0]
		for _, c := range jsonLog.Heads {
			heads = append(heads, hm[c.String()])
		}
	}
	wantHeads := w.Reg.ModelHeads(r.Model)
	strict := w.Reg.StrictTotalOn(w.Order, r.Model)
	wantValues := w.Reg.RefSort(w.Order, r.Model)
	srcValues := world.Hashes(r.Log.Values())
	nt := false
	slowUsed := false
	rivals := 0
	var classes []string
	var reported []string
	extra := loadExtra{SortFn: p.FSort, Progress: p.Progress, Reported: &reported, DefaultIO: p.NoIO}
	if p.Timeout {
		extra.Timeout = 5 * time.Minute
	}
	allEntries := r.Log.GetEntries().Slice()
	for _, k := range p.Known {
		extra.Known = append(extra.Known, allEntries[k%len(allEntries)])
	}
	if p.ReuseOpts > 0 && len(allEntries) > 0 {
		// one options value for every load of this caller - and it has been through a load before: of the history below
		// some older entry, i.e. of ANOTHER state of the log
		classes = append(classes, "one-LogOptions-value-for-all-loads")
		extra.LogOpts = &ipfslog.LogOptions{ID: sim.LogID, SortFn: world.SortFn(w.Order), IO: w.IO}
		// ... and one fetch-options value per options type, which has served before too: for a load of ANOTHER log,
		// written with another codec configuration, from its published head list
		extra.FetchOpts, extra.FetchOptsL = &iface.FetchOptions{}, &ipfslog.FetchOptions{}
		asideIO := world.IO(world.CodecLinkKey, 3)
		if world.Codec(w.Prog.Codec) == world.CodecLinkKey {
			asideIO = world.IO(world.CodecDefault, 0)
		}
		aside, err := world.NewLog(w.Store.API(), 5, "aside-log", w.Order, asideIO, nil)
		if err != nil {
			tb.Fatalf("harness: %v", err)
		}
		for i := 0; i < 3; i++ {
			if _, err := aside.Append(ctx, []byte{byte('a' + i)}, &ipfslog.AppendOptions{PointerCount: 2}); err != nil {
				tb.Fatalf("harness: %v", err)
			}
		}
		if al, err := ipfslog.NewFromJSON(ctx, w.Store.API(), world.Identity(7), aside.ToJSONLog(), &ipfslog.LogOptions{ID: "aside-log", SortFn: world.SortFn(w.Order), IO: asideIO}, extra.FetchOpts); err != nil || al.Len() != 3 {
			tb.Fatalf("load of another log (3 entries, another codec configuration) with the caller's one fetch-options value: %v", err)
		}
		old := allEntries[p.ReuseOpts%len(allEntries)]
		for i := 0; i < len(allEntries) && old.GetLogID() != sim.LogID; i++ { // (entries of a continued older log are not this log's)
			old = allEntries[(p.ReuseOpts+i)%len(allEntries)]
		}
		if old.GetLogID() == sim.LogID {
			oldJSON := &iface.JSONLog{ID: sim.LogID, Heads: []cid.Cid{old.GetHash()}}
			oldManifest, err := w.IO.Write(ctx, w.Store.API(), oldJSON, nil)
			if err != nil {
				tb.Fatalf("harness: %v", err)
			}
			first, err := doLoad(ctx, w.Store.API(), w, loaderNames[p.ReuseOpts%4], oldManifest, oldJSON, []iface.IPFSLogEntry{old}, old.GetHash(), nil, 0, nil, 0, loadExtra{LogOpts: extra.LogOpts, FetchOpts: extra.FetchOpts, FetchOptsL: extra.FetchOptsL})
			if err != nil {
				tb.Fatalf("load of the history below %s failed: %v", world.Short(old.GetHash().String()), err)
			}
			want := w.Reg.Past([]string{old.GetHash().String()}, r.Model)
			if got := world.SetOf(world.Hashes(first.GetEntries())); !got.Equal(want) {
				tb.Fatalf("load of the history below %s: entries %v, want %v", world.Short(old.GetHash().String()), world.Shorts(got.Sorted()), world.Shorts(want.Sorted()))
			}
		}
	}
	for li, spec := range p.Loads {
		loader := loaderNames[spec.Loader%4]
		if loader == "hash" && len(heads) != 1 {
			loader = "entries"
		}
		var hash cid.Cid
		if len(heads) > 0 {
			hash = heads[0].GetHash()
		}
		var lerr error
		var got *loadedLog
		badContent := ""
		var slowCid cid.Cid
		if p.Slow > 0 && !spec.Gated && !slowUsed && !p.Timeout {
			slowUsed = true
			all := r.Model.Sorted()
			slowCid = w.Reg.Get(all[p.Slow%len(all)]).Cid
			w.Store.SetSlow(slowCid, 2600*time.Millisecond)
			classes = append(classes, "one-block-takes-2.6s")
		}
		rivalDone := make(chan struct{})
		if p.Rival > 0 && !spec.Gated {
			const read = time.Millisecond
			w.Store.SetDelay(read)
			go func() {
				defer close(rivalDone)
				rctx, cancel := context.WithTimeout(ctx, time.Duration(p.Rival)*read+read/2)
				defer cancel()
				_, _ = doLoad(rctx, w.Store.API(), w, "entries", manifest, jsonLog, append([]iface.IPFSLogEntry(nil), heads...), hash, nil, spec.Concurrency, nil, 0, loadExtra{})
			}()
			time.Sleep(read / 2) // the rival asks first
			rivals++
		} else {
			close(rivalDone)
		}
		res := gatedOrPlain(tb, coll, w, spec, func() {
			defer func() {
				<-rivalDone
				w.Store.SetDelay(0)
				if slowCid.Defined() {
					w.Store.SetSlow(slowCid, 0)
				}
			}()
			l, err := doLoad(ctx, w.Store.API(), w, loader, manifest, jsonLog, startEntries(p.Shared, heads), hash, nil, spec.Concurrency, nil, 0, extra)
			lerr = err
			if err == nil {
				// what is loaded under an identifier is that entry: same payload, links, clock, key, signature
				for _, le := range l.GetEntries().Slice() {
					if info := w.Reg.Get(le.GetHash().String()); info != nil && world.ContentDigest(le) != info.Content && badContent == "" {
						badContent = fmt.Sprintf("entry %s was loaded with another content than it was written with (next %v refs %v, written next %v refs %v)", world.Short(info.Hash), world.Shorts(world.CidHashes(le.GetNext())), world.Shorts(world.CidHashes(le.GetRefs())), world.Shorts(info.Next), world.Shorts(info.Refs))
					}
				}
				got = &loadedLog{id: l.GetID(), entries: world.SetOf(world.Hashes(l.GetEntries())), heads: world.SetOf(world.Hashes(l.Heads())), values: world.Hashes(l.Values()), length: l.Len()}
			}
		})
		if res.Inconclusive != "" {
			tb.Logf("inconclusive: %s", res.Inconclusive)
			continue
		}
		if lerr != nil {
			tb.Fatalf("load #%d via %s failed: %v", li, loader, lerr)
		}
		if badContent != "" {
			tb.Fatalf("%s: %s", loader, badContent)
		}
		where := loader
		if got.id != sim.LogID {
			tb.Fatalf("%s: loaded log has id %q, original %q", where, got.id, sim.LogID)
		}
		if !got.entries.Equal(r.Model) {
			missing := []string{}
			for h := range r.Model {
				if !got.entries.Has(h) {
					missing = append(missing, world.Short(h))
				}
			}
			tb.Fatalf("%s (concurrency %d, gated %v): loaded %d entries, original has %d; missing %v", where, spec.Concurrency, spec.Gated, len(got.entries), len(r.Model), missing)
		}
		if got.length != len(r.Model) {
			tb.Fatalf("%s: Len %d != %d", where, got.length, len(r.Model))
		}
		if !got.heads.Equal(wantHeads) {
			tb.Fatalf("%s: loaded heads %v, original %v", where, world.Shorts(got.heads.Sorted()), world.Shorts(wantHeads.Sorted()))
		}
		if strict {
			if !world.EqualStrings(got.values, wantValues) {
				tb.Fatalf("%s: loaded values differ from the reference order:\n got  %v\n want %v", where, world.Shorts(got.values), world.Shorts(wantValues))
			}
			if !world.EqualStrings(got.values, srcValues) {
				tb.Fatalf("%s: loaded values differ from the original's values", where)
			}
		} else if !world.SetOf(got.values).Equal(r.Model) || len(got.values) != len(r.Model) {
			tb.Fatalf("%s: loaded values are not a permutation of the original's", where)
		}
		if (len(wantHeads) >= 2 || hasRefs(w, r.Model)) && res.OutOfOrder > 0 {
			nt = true
		}
		classes = append(classes, "loader-"+loader)
		if spec.Gated {
			classes = append(classes, "gated")
			if res.OutOfOrder > 0 {
				classes = append(classes, "out-of-order-completion")
			}
		}
	}
	if len(wantHeads) >= 2 {
		classes = append(classes, "multi-head")
	}
	if hasRefs(w, r.Model) {
		classes = append(classes, "skip-refs")
	}
	if p.World.Continued > 0 {
		classes = append(classes, "continues-another-log")
	}
	if rivals > 0 {
		classes = append(classes, "with-a-rival-load-that-gives-up")
	}
	return ev.Result{NonTrivial: nt, Classes: classes}
}

type loadedLog struct {
	id      string
	entries world.Set
	heads   world.Set
	values  []string
	length  int
}

func TestC09(t *testing.T) {
	c := ev.Get("C09")
	c.Rule = "a generated multi-replica program (default or link-key codec, both orderings, skip references from pointer counts up to 64) builds log states - in about one program in five the log continues, under its own id, a history of 1-9 entries written under another log id, which every replica holds from the start; one replica state is reloaded 1-3 times, each with a generated loader (manifest / JSON heads / head entries / head hash when single-headed), fetch concurrency in {default,1,2,3,16} and - in 3 of 4 loads - a gated store whose outstanding block reads are released in a generated order. In one program in six the ungated loads run next to a rival load of the same heads in the same process that gives up after 1-12 block reads (reads take 1 ms then). Now and then (one program in 250) one block takes 2.6 s to arrive during an ungated load without deadline: the load waits for it. Every loaded entry must have the content it was written with (payload, links, clock, key, signature). The loaded log must have the same id, entry set (== model set), heads (== unreferenced in the model) and values (== reference sort when strict-total, permutation otherwise). Non-trivial = source with >= 2 heads or skip references and at least one read completed out of issue order; distinct = distinct program. In a quarter of the programs the caller keeps one LogOptions value for all its loads and has used it before for a load of an older state of the log. Such a caller also keeps one fetch-options value per options type, used before for a load of another log written with another codec configuration."
	c.Assumptions = []string{"completion orders are produced by a polling controller (settle window 300µs): every order it produces is legal, but a given schedule may map to different orders on a loaded machine; the realised order is stored in the replay file and enforced on replay", "the legacy codec is not reloaded (it cannot read back the v2 entries it writes)"}
	ev.Check(t, "C09", genC09, runC09)
}

// startEntries is what the caller passes as the entries to start from: a private copy, or its one slice every time.
func startEntries(shared bool, heads []iface.IPFSLogEntry) []iface.IPFSLogEntry {
	if shared {
		return heads
	}
	return append([]iface.IPFSLogEntry(nil), heads...)
}
