package world

import (
	coreiface "github.com/ipfs/kubo/core/coreiface"

	"berty.tech/go-ipfs-log/entry/sorting"
	"berty.tech/go-ipfs-log/iface"
)

type ipfsAPI = coreiface.CoreAPI

func sortByEntryHash(a, b iface.IPFSLogEntry) (int, error) { return sorting.SortByEntryHash(a, b) }
