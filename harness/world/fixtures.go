package world

import (
	"context"
	"encoding/hex"
	"sync"

	ds "github.com/ipfs/go-datastore"
	dssync "github.com/ipfs/go-datastore/sync"

	idp "berty.tech/go-ipfs-log/identityprovider"
	"berty.tech/go-ipfs-log/keystore"
)

// Key material of the repository's own test fixtures (test/utils.go), restated
// so that the pinned interoperability vectors can be recomputed.
var fixtureKeys = map[string]string{
	"userA": "0a135ce157a9ccb8375c2fae0d472f1eade4b40b37704c02df923b78ca03c627",
	"userB": "855f70d3b5224e5af76c23db0792339ca8d968a5a802ff0c5b54d674ef01aaad",
	"userC": "291d4dc915d81e9ebe5627c3f5e7309e819e721ee75e63286baa913497d61c78",
	"userD": "faa2d697318a6f8daeb8f4189fc657e7ae1b24e18c91c3bb9b95ad3c0cc050f8",
	"02a38336e3a47f545a172c9f77674525471ebeda7d6c86140e7a778f67ded92260": "7c6140e9ae4c70eb11600b3d550cc6aac45511b5a660f4e75fe9a7c4e6d1c7b7",
	"03e0480538c2a39951d054e17ff31fde487cb1031d0044a037b53ad2e028a3e77c": "97f64ca2bf7bd6aa2136eb0aa3ce512433bd903b91d48b2208052d6ff286d080",
	"032f7b6ef0432b572b45fcaf27e7f6757cd4123ff5c5266365bec82129b8c5f214": "2b487a932233c8691024c951faaeac207be161797bdda7bd934c0125012a5551",
	"0358df8eb5def772917748fdf8a8b146581ad2041eae48d66cc6865f11783499a6": "1cd65d23d72932f5ca2328988d19a5b11fbab1f4c921ef2471768f1773bd56de",
}

var (
	fixOnce sync.Once
	fixKS   *keystore.Keystore
)

// FixtureDatastore returns a fresh datastore holding the repository's fixture keys.
func FixtureDatastore() ds.Datastore {
	d := dssync.MutexWrap(ds.NewMapDatastore())
	for k, v := range fixtureKeys {
		b, err := hex.DecodeString(v)
		if err != nil {
			panic(err)
		}
		if err := d.Put(context.Background(), ds.NewKey(k), b); err != nil {
			panic(err)
		}
	}
	return d
}

// FixtureIdentity returns the identity the repository's tests call userA..userD.
func FixtureIdentity(name string) *idp.Identity {
	fixOnce.Do(func() {
		ks, err := keystore.NewKeystore(FixtureDatastore())
		if err != nil {
			panic(err)
		}
		fixKS = ks
	})
	id, err := idp.CreateIdentity(context.Background(), &idp.CreateIdentityOptions{Keystore: fixKS, ID: name, Type: "orbitdb"})
	if err != nil {
		panic(err)
	}
	return id
}
