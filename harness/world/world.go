// Package world holds what every property harness shares: deterministic
// writer identities, codec configurations, an entry registry (the reference
// model's view of every entry ever created) and reference comparators.
package world

import (
	"crypto/aes"
	"crypto/cipher"
	"bytes"
	"context"
	"crypto/sha256"
	"encoding/hex"
	"fmt"
	"sort"
	"sync"

	"github.com/ipfs/go-cid"
	ds "github.com/ipfs/go-datastore"
	dssync "github.com/ipfs/go-datastore/sync"
	"github.com/libp2p/go-libp2p/core/crypto"
	mh "github.com/multiformats/go-multihash"

	ipfslog "berty.tech/go-ipfs-log"
	"berty.tech/go-ipfs-log/enc"
	"berty.tech/go-ipfs-log/entry"
	"berty.tech/go-ipfs-log/entry/sorting"
	idp "berty.tech/go-ipfs-log/identityprovider"
	"berty.tech/go-ipfs-log/iface"
	"berty.tech/go-ipfs-log/io/cbor"
	"berty.tech/go-ipfs-log/io/pb"
	"berty.tech/go-ipfs-log/keystore"

	"verifharness/fakeipfs"
)

// ---------------------------------------------------------------- identities

const MaxWriters = 8

var (
	idOnce     sync.Once
	identities []*idp.Identity
	Keystore   *keystore.Keystore
	KeyDS      ds.Datastore
)

// Secret returns the deterministic secp256k1 secret of writer i.
func Secret(i int) []byte {
	h := sha256.Sum256([]byte(fmt.Sprintf("verif-key-%d", i)))
	return h[:]
}

func WriterID(i int) string { return fmt.Sprintf("w%d", i) }

func initIdentities() {
	KeyDS = dssync.MutexWrap(ds.NewMapDatastore())
	ctx := context.Background()
	for i := 0; i < MaxWriters; i++ {
		if err := KeyDS.Put(ctx, ds.NewKey(WriterID(i)), Secret(i)); err != nil {
			panic(err)
		}
		// CreateIdentity looks up a second key under the identity's id (the hex
		// public key of the first one) and would generate a random one if absent.
		priv, err := crypto.UnmarshalSecp256k1PrivateKey(Secret(i))
		if err != nil {
			panic(err)
		}
		pub, err := priv.GetPublic().Raw()
		if err != nil {
			panic(err)
		}
		h := sha256.Sum256([]byte(fmt.Sprintf("verif-idkey-%d", i)))
		if err := KeyDS.Put(ctx, ds.NewKey(hex.EncodeToString(pub)), h[:]); err != nil {
			panic(err)
		}
	}
	ks, err := keystore.NewKeystore(KeyDS)
	if err != nil {
		panic(err)
	}
	Keystore = ks
	for i := 0; i < MaxWriters; i++ {
		id, err := idp.CreateIdentity(ctx, &idp.CreateIdentityOptions{Keystore: ks, ID: WriterID(i), Type: "orbitdb"})
		if err != nil {
			panic(err)
		}
		identities = append(identities, id)
	}
}

// Identity returns the deterministic identity of writer i (0 <= i < MaxWriters).
func Identity(i int) *idp.Identity {
	idOnce.Do(initIdentities)
	return identities[i%MaxWriters]
}

// ---------------------------------------------------------------- codecs

type Codec int

const (
	CodecDefault Codec = iota
	CodecLinkKey
	CodecPB
)

func (c Codec) String() string {
	switch c {
	case CodecDefault:
		return "default"
	case CodecLinkKey:
		return "linkkey"
	case CodecPB:
		return "pb"
	}
	return "?"
}

func baseCBOR() *cbor.IOCbor {
	io, err := cbor.IO(&entry.Entry{}, &entry.LamportClock{})
	if err != nil {
		panic(err)
	}
	return io
}

// LinkKey returns the deterministic shared key number k.
func LinkKey(k int) enc.SharedKey {
	h := sha256.Sum256([]byte(fmt.Sprintf("verif-linkkey-%d", k)))
	sk, err := enc.NewSecretbox(h[:])
	if err != nil {
		panic(err)
	}
	return sk
}

// gcmKey is a shared link key of another make than the library's secretbox: AES-256-GCM with 12-byte nonces. The
// codec is handed an enc.SharedKey and has no business with what is inside it.
type gcmKey struct{ aead cipher.AEAD }

// GCMKey returns a new object holding the deterministic AES-GCM shared key number k.
func GCMKey(k int) enc.SharedKey {
	h := sha256.Sum256([]byte(fmt.Sprintf("verif-gcm-linkkey-%d", k)))
	b, err := aes.NewCipher(h[:])
	if err != nil {
		panic(err)
	}
	a, err := cipher.NewGCM(b)
	if err != nil {
		panic(err)
	}
	return &gcmKey{aead: a}
}

func (g *gcmKey) DeriveNonce(input []byte) ([]byte, error) {
	h := sha256.Sum256(append([]byte("verif-gcm-nonce:"), input...))
	return append([]byte(nil), h[:g.aead.NonceSize()]...), nil
}

func (g *gcmKey) SealWithNonce(plain, nonce []byte) ([]byte, error) {
	if len(nonce) != g.aead.NonceSize() {
		return nil, fmt.Errorf("gcm key: nonce of %d bytes", len(nonce))
	}
	return g.aead.Seal(nil, nonce, plain, nil), nil
}

func (g *gcmKey) OpenWithNonce(sealed, nonce []byte) ([]byte, error) {
	if len(nonce) != g.aead.NonceSize() {
		return nil, fmt.Errorf("gcm key: nonce of %d bytes", len(nonce))
	}
	return g.aead.Open(nil, nonce, sealed, nil)
}

func (g *gcmKey) Seal(plain []byte) ([]byte, error) {
	nonce, _ := g.DeriveNonce(plain)
	return g.aead.Seal(append([]byte(nil), nonce...), nonce, plain, nil), nil
}

func (g *gcmKey) Open(sealed []byte) ([]byte, error) {
	n := g.aead.NonceSize()
	if len(sealed) < n {
		return nil, fmt.Errorf("gcm key: short message")
	}
	return g.aead.Open(nil, sealed[:n], sealed[n:], nil)
}

// IOWithKey returns a fresh CBOR codec that seals links with the given shared key.
func IOWithKey(sk enc.SharedKey) iface.IO {
	return baseCBOR().ApplyOptions(&cbor.Options{LinkKey: sk})
}

// DebugIO returns a private CBOR codec instance (default or link-key) whose debug switch is on.
func DebugIO(c Codec, key int) iface.IO {
	opts := &cbor.Options{}
	if c == CodecLinkKey {
		opts.LinkKey = LinkKey(key)
	}
	io := baseCBOR().ApplyOptions(opts)
	io.SetDebug(true)
	return io
}

// LinkKeyBytes returns the 32 key bytes of shared key number k in a fresh buffer.
func LinkKeyBytes(k int) []byte {
	h := sha256.Sum256([]byte(fmt.Sprintf("verif-linkkey-%d", k)))
	return append([]byte(nil), h[:]...)
}

// IOFromBuffer builds a link-key codec from the key bytes found in buf right now. What the caller does with buf
// afterwards (wipe it, load another key into it) is the caller's business.
func IOFromBuffer(buf []byte) iface.IO {
	sk, err := enc.NewSecretbox(buf)
	if err != nil {
		panic(err)
	}
	return baseCBOR().ApplyOptions(&cbor.Options{LinkKey: sk})
}

var (
	ioMu    sync.Mutex
	ioCache = map[string]iface.IO{}
)

// IO returns the io for the codec; for CodecLinkKey key selects the shared key.
func IO(c Codec, key int) iface.IO {
	ioMu.Lock()
	defer ioMu.Unlock()
	k := fmt.Sprintf("%d/%d", c, key)
	if io, ok := ioCache[k]; ok {
		return io
	}
	var io iface.IO
	switch c {
	case CodecDefault:
		io = baseCBOR()
	case CodecLinkKey:
		io = baseCBOR().ApplyOptions(&cbor.Options{LinkKey: LinkKey(key)})
	case CodecPB:
		p, err := pb.IO(&entry.Entry{}, &entry.LamportClock{})
		if err != nil {
			panic(err)
		}
		io = p
	}
	ioCache[k] = io
	return io
}

// ---------------------------------------------------------------- orderings

type Ordering int

const (
	OrderLWW  Ordering = iota // default LastWriteWins
	OrderHash                 // SortByEntryHash
	// OrderFWW is FirstWriteWins, the reverse of the default. It does not put predecessors first, so it is not one
	// of the orderings C03 & co speak about; it is a legal LogOptions.SortFn all the same and is used where a
	// property does not depend on the ordering (C04).
	OrderFWW
)

func (o Ordering) String() string {
	switch o {
	case OrderHash:
		return "hash"
	case OrderFWW:
		return "fww"
	}
	return "lww"
}

// ---------------------------------------------------------------- registry

// Info is the harness's own record of an entry, captured when the entry was
// first seen. Oracles use it instead of calling back into the library.
type Info struct {
	Hash    string
	Cid     cid.Cid
	LogID   string
	Next    []string
	Refs    []string
	Time    int
	ClockID []byte
	Key     []byte
	Payload []byte
	Digest  string // canonical digest of every field
	Content string // digest of the content fields (everything but additional data and identity)
	Seq     int    // creation order in the registry
}

type Registry struct {
	mu    sync.Mutex
	infos map[string]*Info
	order []string
}

func NewRegistry() *Registry { return &Registry{infos: map[string]*Info{}} }

// Digest computes a canonical digest over every observable field of an entry.
func Digest(e iface.IPFSLogEntry) string {
	h := sha256.New()
	w := func(tag string, b []byte) {
		fmt.Fprintf(h, "%s:%d:", tag, len(b))
		h.Write(b)
	}
	w("payload", e.GetPayload())
	w("id", []byte(e.GetLogID()))
	for _, n := range e.GetNext() {
		w("next", n.Bytes())
	}
	for _, n := range e.GetRefs() {
		w("ref", n.Bytes())
	}
	w("v", []byte(fmt.Sprint(e.GetV())))
	w("key", e.GetKey())
	w("sig", e.GetSig())
	if c := e.GetClock(); c != nil {
		w("clockid", c.GetID())
		w("time", []byte(fmt.Sprint(c.GetTime())))
	} else {
		w("noclock", nil)
	}
	if id := e.GetIdentity(); id != nil {
		w("identity.id", []byte(id.ID))
		w("identity.pk", id.PublicKey)
		w("identity.type", []byte(id.Type))
		if id.Signatures != nil {
			w("identity.sig.id", id.Signatures.ID)
			w("identity.sig.pk", id.Signatures.PublicKey)
		}
	}
	w("hash", e.GetHash().Bytes())
	ad := e.GetAdditionalData()
	keys := make([]string, 0, len(ad))
	for k := range ad {
		keys = append(keys, k)
	}
	sort.Strings(keys)
	for _, k := range keys {
		w("ad."+k, []byte(ad[k]))
	}
	return hex.EncodeToString(h.Sum(nil))
}

// ContentDigest covers the fields that are stored in the block: payload, id,
// next, refs, v, key, sig, clock and hash (not additional data, which only
// entries created locally under a link key carry, and not the identity object).
func ContentDigest(e iface.IPFSLogEntry) string {
	h := sha256.New()
	w := func(tag string, b []byte) {
		fmt.Fprintf(h, "%s:%d:", tag, len(b))
		h.Write(b)
	}
	w("payload", e.GetPayload())
	w("id", []byte(e.GetLogID()))
	for _, n := range e.GetNext() {
		w("next", n.Bytes())
	}
	for _, n := range e.GetRefs() {
		w("ref", n.Bytes())
	}
	w("v", []byte(fmt.Sprint(e.GetV())))
	w("key", e.GetKey())
	w("sig", e.GetSig())
	if c := e.GetClock(); c != nil {
		w("clockid", c.GetID())
		w("time", []byte(fmt.Sprint(c.GetTime())))
	}
	w("hash", e.GetHash().Bytes())
	return hex.EncodeToString(h.Sum(nil))
}

func cidStrings(cs []cid.Cid) []string {
	out := make([]string, len(cs))
	for i, c := range cs {
		out[i] = c.String()
	}
	return out
}

// Record registers an entry (idempotent) and returns its info.
func (r *Registry) Record(e iface.IPFSLogEntry) *Info {
	r.mu.Lock()
	defer r.mu.Unlock()
	h := e.GetHash().String()
	if in, ok := r.infos[h]; ok {
		return in
	}
	in := &Info{
		Hash:    h,
		Cid:     e.GetHash(),
		LogID:   e.GetLogID(),
		Next:    cidStrings(e.GetNext()),
		Refs:    cidStrings(e.GetRefs()),
		Time:    e.GetClock().GetTime(),
		ClockID: append([]byte(nil), e.GetClock().GetID()...),
		Key:     append([]byte(nil), e.GetKey()...),
		Payload: append([]byte(nil), e.GetPayload()...),
		Digest:  Digest(e),
		Content: ContentDigest(e),
		Seq:     len(r.order),
	}
	r.infos[h] = in
	r.order = append(r.order, h)
	return in
}

func (r *Registry) Get(h string) *Info {
	r.mu.Lock()
	defer r.mu.Unlock()
	return r.infos[h]
}

func (r *Registry) Has(h string) bool { return r.Get(h) != nil }

func (r *Registry) Len() int {
	r.mu.Lock()
	defer r.mu.Unlock()
	return len(r.order)
}

// All returns all hashes in creation order.
func (r *Registry) All() []string {
	r.mu.Lock()
	defer r.mu.Unlock()
	return append([]string(nil), r.order...)
}

// ---------------------------------------------------------------- set model

// Set is a set of entry hashes (the reference model of a replica).
type Set map[string]struct{}

func (s Set) Clone() Set {
	o := make(Set, len(s))
	for k := range s {
		o[k] = struct{}{}
	}
	return o
}

func (s Set) Add(h string)      { s[h] = struct{}{} }
func (s Set) Has(h string) bool { _, ok := s[h]; return ok }

func (s Set) Union(o Set) {
	for k := range o {
		s[k] = struct{}{}
	}
}

func (s Set) Sorted() []string {
	out := make([]string, 0, len(s))
	for k := range s {
		out = append(out, k)
	}
	sort.Strings(out)
	return out
}

func (s Set) Equal(o Set) bool {
	if len(s) != len(o) {
		return false
	}
	for k := range s {
		if !o.Has(k) {
			return false
		}
	}
	return true
}

func SetOf(hs []string) Set {
	s := Set{}
	for _, h := range hs {
		s.Add(h)
	}
	return s
}

// Key is a stable string for a set (used to group replicas with equal sets).
func (s Set) Key() string {
	h := sha256.New()
	for _, k := range s.Sorted() {
		h.Write([]byte(k))
		h.Write([]byte{0})
	}
	return hex.EncodeToString(h.Sum(nil)[:12])
}

// ModelHeads = members of s that no member of s names in next.
func (r *Registry) ModelHeads(s Set) Set {
	referenced := Set{}
	for h := range s {
		for _, n := range r.Get(h).Next {
			referenced.Add(n)
		}
	}
	out := Set{}
	for h := range s {
		if !referenced.Has(h) {
			out.Add(h)
		}
	}
	return out
}

// Past returns the causal past (closure over next, restricted to within if
// non-nil) of the given start hashes, including the start hashes themselves.
func (r *Registry) Past(start []string, within Set) Set {
	out := Set{}
	stack := append([]string(nil), start...)
	for len(stack) > 0 {
		h := stack[len(stack)-1]
		stack = stack[:len(stack)-1]
		if out.Has(h) {
			continue
		}
		if within != nil && !within.Has(h) {
			continue
		}
		in := r.Get(h)
		if in == nil {
			continue
		}
		out.Add(h)
		stack = append(stack, in.Next...)
	}
	return out
}

// PastAll is like Past but follows next and refs.
func (r *Registry) PastAll(start []string, ok func(h string) bool) Set {
	out := Set{}
	stack := append([]string(nil), start...)
	for len(stack) > 0 {
		h := stack[len(stack)-1]
		stack = stack[:len(stack)-1]
		if out.Has(h) {
			continue
		}
		in := r.Get(h)
		if in == nil || (ok != nil && !ok(h)) {
			continue
		}
		out.Add(h)
		stack = append(stack, in.Next...)
		stack = append(stack, in.Refs...)
	}
	return out
}

// HasFork reports whether s contains two entries neither of which is an
// ancestor of the other.
func (r *Registry) HasFork(s Set) bool {
	// a set is a chain iff sorting by |past| gives a sequence where each past
	// contains the previous element; cheaper: some entry has >=2 children in s,
	// or s has >= 2 heads, or >= 2 roots (within s).
	children := map[string]int{}
	roots := 0
	for h := range s {
		n := 0
		for _, p := range r.Get(h).Next {
			if s.Has(p) {
				children[p]++
				n++
			}
		}
		if n == 0 {
			roots++
		}
	}
	if roots > 1 || len(r.ModelHeads(s)) > 1 {
		return true
	}
	for _, c := range children {
		if c > 1 {
			return true
		}
	}
	return false
}

// HasDiamond reports whether some entry of s has >= 2 predecessors in s.
func (r *Registry) HasDiamond(s Set) bool {
	for h := range s {
		n := 0
		for _, p := range r.Get(h).Next {
			if s.Has(p) {
				n++
			}
		}
		if n >= 2 {
			return true
		}
	}
	return false
}

// ---------------------------------------------------------------- reference order

// RefCompare is the harness's own statement of the two supported orderings:
// clock time, then clock id bytes, then (hash ordering only) the hash string.
// It returns 0 for LWW ties (the library's First tiebreak is not a total order there).
func RefCompare(o Ordering, a, b *Info) int {
	if o == OrderFWW {
		return -RefCompare(OrderLWW, a, b)
	}
	if a.Time != b.Time {
		if a.Time < b.Time {
			return -1
		}
		return 1
	}
	idDir, hashDir := refDirections()
	if c := bytes.Compare(a.ClockID, b.ClockID); c != 0 {
		return c * idDir
	}
	if o == OrderHash {
		if a.Hash < b.Hash {
			return -hashDir
		}
		if a.Hash > b.Hash {
			return hashDir
		}
	}
	return 0
}

var refDir struct {
	once     sync.Once
	id, hash int
}

// refDirections tells which way the library breaks ties between equal clock times (by clock id) and between equal
// clocks (by hash). The properties fix the role of the clock time (smaller first) and demand lawful total orders,
// not the direction of the tie-breaks, so the reference order takes the two directions from the library once
// (probing one fixed pair each; a comparator that answers 0 there leaves the usual ascending direction, and the
// lawfulness of the comparators on all pairs is C19's business).
func refDirections() (int, int) {
	refDir.once.Do(func() {
		refDir.id, refDir.hash = 1, 1
		c1 := entry.NewLamportClock([]byte{1}, 5)
		c2 := entry.NewLamportClock([]byte{2}, 5)
		if c1.Compare(c2) > 0 {
			refDir.id = -1
		}
		ha, hb := fixedCid("ref-a"), fixedCid("ref-b")
		if ha.String() > hb.String() {
			ha, hb = hb, ha
		}
		ea := &entry.Entry{Hash: ha, Clock: entry.NewLamportClock([]byte{1}, 5)}
		eb := &entry.Entry{Hash: hb, Clock: entry.NewLamportClock([]byte{1}, 5)}
		if r, err := sorting.SortByEntryHash(ea, eb); err == nil && r > 0 {
			refDir.hash = -1
		}
	})
	return refDir.id, refDir.hash
}

func fixedCid(s string) cid.Cid {
	c, err := cid.V1Builder{Codec: cid.DagCBOR, MhType: mh.SHA2_256}.Sum([]byte(s))
	if err != nil {
		panic(err)
	}
	return c
}

// StrictTotalOn reports whether the ordering is a strict total order on s:
// always for OrderHash; for OrderLWW iff no two distinct entries share (clock id, time).
func (r *Registry) StrictTotalOn(o Ordering, s Set) bool {
	if o == OrderHash {
		return true
	}
	seen := map[string]struct{}{}
	for h := range s {
		in := r.Get(h)
		k := fmt.Sprintf("%x/%d", in.ClockID, in.Time)
		if _, dup := seen[k]; dup {
			return false
		}
		seen[k] = struct{}{}
	}
	return true
}

// RefSort returns the members of s in ascending reference order. Ties (LWW
// only) are broken by hash so the result is deterministic; callers must check
// StrictTotalOn before relying on the relative order of tied entries.
func (r *Registry) RefSort(o Ordering, s Set) []string {
	out := s.Sorted()
	sort.SliceStable(out, func(i, j int) bool {
		return RefCompare(o, r.Get(out[i]), r.Get(out[j])) < 0
	})
	return out
}

// ---------------------------------------------------------------- helpers on library objects

func SortFn(o Ordering) iface.EntrySortFn {
	switch o {
	case OrderHash:
		return sortByEntryHash
	case OrderFWW:
		return sorting.FirstWriteWins
	}
	return nil // library default (LastWriteWins)
}

// Hashes returns the hash strings of an ordered entry container in order.
func Hashes(m iface.IPFSLogOrderedEntries) []string {
	if m == nil {
		return nil
	}
	sl := m.Slice()
	out := make([]string, len(sl))
	for i, e := range sl {
		out[i] = e.GetHash().String()
	}
	return out
}

func SliceHashes(sl []iface.IPFSLogEntry) []string {
	out := make([]string, len(sl))
	for i, e := range sl {
		out[i] = e.GetHash().String()
	}
	return out
}

func CidHashes(cs []cid.Cid) []string { return cidStrings(cs) }

func EqualStrings(a, b []string) bool {
	if len(a) != len(b) {
		return false
	}
	for i := range a {
		if a[i] != b[i] {
			return false
		}
	}
	return true
}

func SortedCopy(a []string) []string {
	o := append([]string(nil), a...)
	sort.Strings(o)
	return o
}

// Short abbreviates a hash for messages.
func Short(h string) string {
	if len(h) > 10 {
		return h[len(h)-8:]
	}
	return h
}

func Shorts(hs []string) []string {
	o := make([]string, len(hs))
	for i, h := range hs {
		o[i] = Short(h)
	}
	return o
}

// NewLog creates a log for writer w with explicit id, ordering and codec.
func NewLog(api ipfsAPI, w int, id string, o Ordering, io iface.IO, opts *ipfslog.LogOptions) (*ipfslog.IPFSLog, error) {
	lo := &ipfslog.LogOptions{}
	if opts != nil {
		*lo = *opts
	}
	lo.ID = id
	lo.SortFn = SortFn(o)
	lo.IO = io
	return ipfslog.NewLog(api, Identity(w), lo)
}

// IOFresh builds a new codec instance (not cached): a second party holding the same key bytes.
func IOFresh(c Codec, key int) iface.IO {
	if c == CodecLinkKey {
		return baseCBOR().ApplyOptions(&cbor.Options{LinkKey: LinkKey(key)})
	}
	return IO(c, key)
}

var longChains = struct {
	mu sync.Mutex
	es map[string][]iface.IPFSLogEntry
	rw map[string][][]byte
}{es: map[string][]iface.IPFSLogEntry{}, rw: map[string][][]byte{}}

// LongChain returns the first n entries (oldest first) of one long history written once per process by writer 4
// with mixed pointer counts, and their stored blocks. It is extended on demand and never rebuilt, so every caller
// sees the same entries.
func LongChain(c Codec, logID string, n int) ([]iface.IPFSLogEntry, [][]byte) {
	longChains.mu.Lock()
	defer longChains.mu.Unlock()
	key := fmt.Sprintf("%d/%s", c, logID)
	if len(longChains.es[key]) < n {
		// (re)built from scratch; signatures are deterministic, so a longer rebuild has the same prefix
		st := fakeipfs.NewStore()
		l, err := NewLog(st.API(), 4, logID, OrderLWW, IO(c, 0), nil)
		if err != nil {
			panic(err)
		}
		var es []iface.IPFSLogEntry
		var rw [][]byte
		size := n
		if size < 1300 {
			size = 1300
		}
		for i := 0; i < size; i++ {
			e, err := l.Append(context.Background(), []byte(fmt.Sprintf("long-%d", i)), &ipfslog.AppendOptions{PointerCount: []int{1, 1, 4, 16, 64}[i%5]})
			if err != nil {
				panic(err)
			}
			raw, _ := st.Raw(e.GetHash())
			es = append(es, e)
			rw = append(rw, raw)
		}
		longChains.es[key], longChains.rw[key] = es, rw
	}
	// every caller gets its own entry objects (a check may alter the ones it holds in place)
	out := make([]iface.IPFSLogEntry, n)
	for i, e := range longChains.es[key][:n] {
		c := e.Copy()
		c.SetPayload(append([]byte(nil), e.GetPayload()...))
		c.SetKey(append([]byte(nil), e.GetKey()...))
		c.SetSig(append([]byte(nil), e.GetSig()...))
		out[i] = c
	}
	return out, longChains.rw[key][:n:n]
}

var wideForests = struct {
	mu sync.Mutex
	es map[string][][]iface.IPFSLogEntry
	rw map[string][][][]byte
}{es: map[string][][]iface.IPFSLogEntry{}, rw: map[string][][][]byte{}}

// WideForest returns the first n of 40 independent short histories (1-2 entries each, written by writers 4..7 with
// distinct clock times) of one log, and their stored blocks: a replica that holds them has that many heads. Every
// caller gets its own entry objects.
func WideForest(c Codec, logID string, n int) ([][]iface.IPFSLogEntry, [][][]byte) {
	wideForests.mu.Lock()
	defer wideForests.mu.Unlock()
	key := fmt.Sprintf("%d/%s", c, logID)
	if wideForests.es[key] == nil {
		var all [][]iface.IPFSLogEntry
		var raws [][][]byte
		for i := 0; i < 40; i++ {
			st := fakeipfs.NewStore()
			w := 4 + i%4
			l, err := NewLog(st.API(), w, logID, OrderLWW, IO(c, 0), &ipfslog.LogOptions{Clock: entry.NewLamportClock(Identity(w).PublicKey, 3*i)})
			if err != nil {
				panic(err)
			}
			var es []iface.IPFSLogEntry
			var rw [][]byte
			for j := 0; j < 1+i%2; j++ {
				e, err := l.Append(context.Background(), []byte(fmt.Sprintf("wide-%d-%d", i, j)), nil)
				if err != nil {
					panic(err)
				}
				raw, _ := st.Raw(e.GetHash())
				es, rw = append(es, e), append(rw, raw)
			}
			all, raws = append(all, es), append(raws, rw)
		}
		wideForests.es[key], wideForests.rw[key] = all, raws
	}
	if n > 40 {
		n = 40
	}
	out := make([][]iface.IPFSLogEntry, n)
	for i, chain := range wideForests.es[key][:n] {
		for _, e := range chain {
			c := e.Copy()
			c.SetPayload(append([]byte(nil), e.GetPayload()...))
			c.SetKey(append([]byte(nil), e.GetKey()...))
			c.SetSig(append([]byte(nil), e.GetSig()...))
			out[i] = append(out[i], c)
		}
	}
	return out, wideForests.rw[key][:n]
}
