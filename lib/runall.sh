#!/bin/bash
# runall.sh [tier] : run every claimed check once, print one line each
cd "$(dirname "$0")/.."
tier=${1:-quick}
for p in $(python3 -c "
import sys; sys.path.insert(0,'lib')
from props import PROPS
print(' '.join(sorted(PROPS)))"); do
  s=$(date +%s)
  out=$(./check $p --tier $tier 2>/dev/null | grep -E "^(VIOLATION|OK|INCONCLUSIVE|KNOWN)" | cut -c1-160 | tr '\n' ' ')
  echo "$p [$(( $(date +%s) - s ))s] $out"
done
