#!/bin/bash
# seedcheck.sh ID PROP... : confirm a seeded defect in its scratch worktree, store it under /verif/seeded/ID, run checks against it
set -u
id=$1; shift
root=${SEEDROOT:-/tmp/seed}
wt=$root/$id
out=/verif/seeded/$id${SEEDSUFFIX:-}
export GOFLAGS=-mod=mod GOPROXY=off GOSUMDB=off GOTOOLCHAIN=local
mkdir -p $out
cd $wt || exit 3
git diff > $out/patch.diff
demo=$(git status --porcelain | grep '^??' | awk '{print $2}' | grep _test.go | head -1)
[ -z "$demo" ] && { echo "no demo file"; exit 3; }
cp $demo $out/$(basename $demo)
demodir=./$(dirname $demo)
echo "== changed: $(git diff --stat | tail -1)   demo: $demo"
echo "== with change: build + existing suite (demo moved aside)"
go build ./... || { echo BUILD-FAIL; exit 3; }
mv $demo $root/$id.demo.hold
go test -vet=off -count=1 ./... 2>&1 | grep -E "^(ok|FAIL|---)" | head -5
mv $root/$id.demo.hold $demo
echo "== with change: demo (expect FAIL)"
go test -vet=off -count=1 -run 'SeedDemo|Seed' $demodir 2>&1 | grep -E "^(ok|FAIL|--- FAIL|--- PASS)" | head -5
echo "== without change: demo (expect PASS)"
git apply -R $out/patch.diff
go test -vet=off -count=1 -run 'SeedDemo|Seed' $demodir 2>&1 | grep -E "^(ok|FAIL|--- FAIL|--- PASS)" | head -5
git apply $out/patch.diff
echo "== checks against the patch applied to /repo"
cd /verif
if [ -n "$(git -C /repo status --porcelain)" ]; then echo "repo dirty"; exit 3; fi
trap 'git -C /repo checkout -- . ; git -C /repo clean -fdq' EXIT
git -C /repo apply $out/patch.diff || { echo "patch does not apply to /repo"; exit 3; }
for p in "$@"; do
  r=$(VERIF_NO_EVIDENCE=1 ./check $p --tier ${TIER:-quick} 2>/dev/null | grep -E "^(VIOLATION|OK|INCONCLUSIVE)" | head -2 | cut -c1-120 | tr '\n' ' ')
  echo "$id vs $p -> $r"
done
