# Property table for the driver. One or more jobs per property; each job is a
# test of a harness package run as a compiled test binary.
def _crdt(name, q, t):
    return {"jobs": [{"pkg": "crdt", "run": "^Test%s$" % name, "checks_quick": q, "checks_thorough": t, "shards_thorough": 16}]}


PROPS = {
    "C01": _crdt("C01", 2500, 12000),
    "C02": _crdt("C02", 2500, 10000),
    "C03": _crdt("C03", 2500, 10000),
    "C04": _crdt("C04", 3000, 16000),
    "C05": _crdt("C05", 3500, 8000),
    "C16": _crdt("C16", 6000, 20000),
    "C06": {"jobs": [{"pkg": "auth", "run": "^TestC06$", "checks_quick": 3000, "checks_thorough": 16000, "shards_thorough": 16, "wal": True}]},
    "C07": {"jobs": [{"pkg": "auth", "run": "^TestC07$", "checks_quick": 20000, "checks_thorough": 150000, "shards_thorough": 16}]},
    "C08": {"jobs": [{"pkg": "codec", "run": "^TestC08", "checks_quick": 8000, "checks_thorough": 60000, "shards_thorough": 8, "xproc": True}]},
    "C09": {"jobs": [{"pkg": "load", "run": "^TestC09$", "checks_quick": 1500, "checks_thorough": 10000, "shards_thorough": 16}]},
    "C10": {"jobs": [{"pkg": "load", "run": "^TestC10$", "checks_quick": 2500, "checks_thorough": 10000, "shards_thorough": 16}]},
    "C11": {"jobs": [{"pkg": "load", "run": "^TestC11$", "checks_quick": 1500, "checks_thorough": 10000, "shards_thorough": 16}], "timeout_quick": 1200, "timeout_thorough": 5400},
    "C12": {"jobs": [{"pkg": "hostile", "run": "^(TestC12|FuzzC12Decode)$", "checks_quick": 6000, "checks_thorough": 30000, "shards_thorough": 12, "wal": True},
                     {"pkg": "hostile", "fuzz": "FuzzC12Decode", "tiers": ["thorough"], "shards_thorough": 1, "fuzztime_thorough": "420s"}]},
    "C13": {"jobs": [{"pkg": "conc", "run": "^TestC13Coop$", "checks_quick": 4000, "checks_thorough": 30000, "shards_thorough": 12},
                     {"pkg": "conc", "run": "^TestC13Free$", "race": True, "wal": True, "checks_quick": 250, "checks_thorough": 4000, "shards_quick": 4, "shards_thorough": 8}],
            "timeout_quick": 1200, "timeout_thorough": 5400},
    "C14": {"jobs": [{"pkg": "conc", "run": "^TestC14Coop$", "checks_quick": 5000, "checks_thorough": 20000, "shards_thorough": 12},
                     {"pkg": "conc", "run": "^TestC14Free$", "race": True, "wal": True, "checks_quick": 250, "checks_thorough": 3000, "shards_quick": 4, "shards_thorough": 8}],
            "timeout_quick": 1200, "timeout_thorough": 7200},
    "C15": {"jobs": [{"pkg": "iter", "run": "^TestC15$", "checks_quick": 4000, "checks_thorough": 25000, "shards_thorough": 16}]},
    "C17": {"jobs": [{"pkg": "load", "run": "^TestC17$", "checks_quick": 1500, "checks_thorough": 3000, "shards_thorough": 16}]},
    "C18": {"jobs": [{"pkg": "codec", "run": "^TestC18$", "checks_quick": 3000, "checks_thorough": 15000, "shards_thorough": 16}]},
    "C19": {"jobs": [{"pkg": "order", "run": "^TestC19$", "checks_quick": 60000, "checks_thorough": 500000, "shards_thorough": 16},
                     {"pkg": "order", "run": "^TestC19Parallel$", "race": True, "checks_quick": 400, "checks_thorough": 6000, "shards_thorough": 4}]},
}

for _pid, _q, _t in (("C02", 2500, 4000), ("C03", 2500, 4000), ("C04", 2500, 4000), ("C05", 2500, 4000)):
    PROPS[_pid]["jobs"].append({"pkg": "conc", "run": "^Test%sConc$" % _pid, "checks_quick": _q, "checks_thorough": 4 * _t, "shards_thorough": 8})
for _pid in ("C01", "C02", "C03", "C05"):
    PROPS[_pid]["jobs"].append({"pkg": "conc", "run": "^Test%sMulti$" % _pid, "checks_quick": 2500, "checks_thorough": 16000, "shards_thorough": 8})

PROPS["C20"] = {"jobs": [{"pkg": "keys", "run": "^TestC20$", "checks_quick": 1500, "checks_thorough": 8000, "shards_thorough": 16},
                         {"pkg": "keys", "run": "^TestC20Parallel$", "race": True, "checks_quick": 150, "checks_thorough": 2000, "shards_thorough": 4}]}

# Native coverage-guided campaigns over the generators' bit streams (rapid.MakeFuzz), thorough tier only: the fuzz
# bytes are what rapid draws from, so the fuzzer mutates generated programs and keeps those that reach new code.
for _pid, _pkg, _fn, _t in (("C06", "auth", "FuzzC06", "150s"), ("C07", "auth", "FuzzC07", "150s"), ("C08", "codec", "FuzzC08", "150s"),
                            ("C15", "iter", "FuzzC15", "150s"), ("C18", "codec", "FuzzC18", "150s"), ("C19", "order", "FuzzC19", "120s")):
    PROPS[_pid]["jobs"].append({"pkg": _pkg, "fuzz": _fn, "tiers": ["thorough"], "shards_thorough": 1, "fuzztime_thorough": _t, "parallel": 8})

HOOK_COMMITS = ["0049d5e", "3ca7037", "66fb88e"]

# Manifest metadata per claimed property.
META = {
    "C01": {
        "technique": "stateful property-based testing (rapid): generated multi-replica append/merge programs checked against a set-union reference model, convergence compared across replicas; plus generated concurrent multi-log programs (cooperative scheduler) followed by a complete exchange after which all logs must agree",
        "text": "Generated histories (2-5 replicas, shared writers, both orderings, default and link-key codecs) followed by a complete exchange in generated pair order with repetitions; after every operation the entry set equals the set model and replicas with equal sets expose equal heads/published heads and, when the ordering is strict-total there, identical Values(); self/empty/foreign-id merges leave the full snapshot unchanged. Exploration only: thousands of histories up to ~40 (quick) / ~100 (thorough) operations.",
        "note": "Trusts the harness's in-memory DAG store, its set model and registry; FirstWriteWins is not used as a log ordering; bounded by program size.",
    },
    "C02": {
        "technique": "stateful property-based testing (rapid): invariant over every reachable state against heads recomputed from the harness registry; plus generated concurrent programs (single shared log and several mutually merging logs) under the cooperative scheduler asserting the same clause",
        "text": "After every operation of generated multi-replica histories, Heads/RawHeads/ToSnapshot/ToJSONLog heads of every replica are compared with the unreferenced members of the model set (computed by the harness, not with FindHeads); histories include refused merges, denied and failed appends, pinned appends and foreign-type merge sources. Two further jobs run generated concurrent programs under the cooperative scheduler and assert only this clause at every write-unlock and on the quiescent final states. Exploration.",
        "note": "Same trusted base as C01.",
    },
    "C03": {
        "technique": "stateful property-based testing (rapid): Values() vs reference sort of the model set with the harness's own comparator; plus generated concurrent programs under the cooperative scheduler asserting the linearisation clauses on reads and final states",
        "text": "After every operation Values() (and ToSnapshot().Values) is checked complete, duplicate-free, causal and equal to the reference sort when the ordering is strict-total on the set (order-free clauses otherwise). Exploration.",
        "note": "Comparator re-implemented in the harness (time, clock-id bytes, hash string; the direction of the two tie-breaks is taken from the library by probing one fixed pair each); trusts Go's sort.",
    },
    "C04": {
        "technique": "stateful property-based testing (rapid): per-append postconditions against the model state preceding the append; plus generated concurrent programs under the cooperative scheduler (predecessors == heads at commit time, clock dominance, single head at unlock)",
        "text": "Every append in generated histories (incl. after merges, identity changes, rebuilds from entries, reloads from the store, initial clocks up to 1.7e18, SortFn LastWriteWins / hash / FirstWriteWins) is checked: next == model heads, clock id == writer key, time > every held time, single head, references within the causal past / disjoint from next / duplicate-free / at most one per power of two up to pc (+1 when the log is shorter than pc). Exploration.",
        "note": "Times stay far below MaxInt; the reload step relies on the loaders (C09).",
    },
    "C05": {
        "technique": "stateful property-based testing (rapid): first-seen digests of every entry (by hash and by object identity) re-checked after every operation on every replica; plus generated concurrent single-log and multi-log programs under the cooperative scheduler (no entry vanishes at any write-unlock, the final view contains everything ever held or seen)",
        "text": "After every operation every hash ever seen in a replica is still retrievable with an unchanged content digest, every entry object keeps its full digest (aliasing across replicas and loaded logs), Len never decreases, previous Values() is a subsequence of the new one (strict-total case). Exploration.",
        "note": "Bounded merges excluded (C16); a rebuild/reload counts as the same log.",
    },
    "C06": {
        "technique": "property-based testing (rapid): generated corruption plans and access policies over generated logs, oracle = harness-computed candidate set; snapshot comparison for atomicity",
        "text": "Generated valid logs (three codecs) + corruption plans (9 kinds, any positions) + pure access policies; the harness computes the candidate set and decides whether the merge must fail (then full snapshot incl. the result of a following append is unchanged) or succeed with destination ∪ candidates; denied appends; every appended entry verifies and merges under every codec. Exploration.",
        "note": "Access controller assumed pure and concurrency-safe; foreign-log-id entries are skipped silently as the first clause states.",
    },
    "C07": {
        "technique": "property-based testing (rapid): metamorphic relation - 25 single-field mutations of a signed entry must all fail Verify",
        "text": "Generated entries (binary payloads, 0-6 links, custom clocks, three codecs) are signed, verified, mutated in one signed field (or key/signature substituted) and must stop verifying. One class is a recorded known finding (payload bytes inside invalid UTF-8), excluded by construction and counted. Exploration.",
        "note": "Log ids are valid UTF-8; deterministic RFC 6979 signatures with harness keys.",
    },
    "C08": {
        "technique": "property-based testing (rapid): round-trip + differential against an independent canonical DAG-CBOR reference encoder + pinned vectors + two-process digest comparison",
        "text": "Generated entries/manifests: stored bytes must equal the harness's own canonical encoder and hash to the CID; read-back equals the written entry field by field (default and link-key codecs); re-encoding the decoded entry gives the same CID; rebuilt-from-scratch values give identical bytes; the run digest is identical in a second process; 22 pinned interop vectors (v2/v1/v0) are recomputed bit-exact and legacy blocks decode to the fixture fields. Exploration.",
        "note": "Reference encoder written from the observed wire format + RFC 7049 canonical rules; 'any process' sampled as two processes.",
    },
    "C09": {
        "technique": "property-based testing (rapid) over generated log states x four loaders x concurrency x generated block-arrival orders (gated in-memory store + completion-order controller); oracle = set model / reference sort",
        "text": "Generated histories (forks, skip references, two codecs) are reloaded through each loader under generated fetch concurrency and generated completion orders of the outstanding block reads; the loaded log must equal the model (id, entry set, heads, values); also for logs that continue another log's history under their own id, and while a rival load of the same heads gives up in the same process. Exploration.",
        "note": "Completion orders come from a polling controller: every realised order is legal, reproducibility of a schedule-dependent failure relies on the recorded order stored in the replay file.",
    },
    "C10": {
        "technique": "property-based testing (rapid): bounded loads vs cardinality / membership / recency oracle from the registry, metamorphic comparison across three generated schedules",
        "text": "Generated logs x loaders (incl. arbitrary supplied entries and entry hashes) x limits 0..size+3 x three executions with different concurrency and completion order: |result| == min(max(n,k),size), supplied ⊆ result, nothing excluded strictly newer than an included non-supplied entry, same result set across the executions; the caller may keep one limit variable for all its loads. Exploration. Found and repaired three loader defects.",
        "note": "Ties in (time, clock id) may resolve either way; set equality across schedules asserted only without such ties.",
    },
    "C11": {
        "technique": "property-based testing (rapid) with fault injection: generated fault plans, exclusion sets, concurrency and completion orders; oracle = graph reachability in the harness registry + read log of the store",
        "text": "Generated DAGs with absent / failing / undecodable / wrong-shape / stalling / slow blocks and blocks for which the store reports its own deadline or cancellation, exclusions, duplicated and unknown start hashes: the fetch must return (exact quiescence-based hang detection with goroutine dump), return no entry twice, never read an excluded hash or a hash twice, and return exactly the entries reachable through healthy non-excluded entries (⊆ under stalls). Exploration.",
        "note": "Liveness is observed, not proved; wall-clock time bounds are not asserted.",
    },
    "C12": {
        "technique": "structured property-based generation (rapid) of schema-deviating CBOR/JSON blocks + native coverage-guided fuzzing (go test -fuzz) of raw bytes; oracle = no panic under recover() in any decoder/accessor + healthy remainder loads",
        "text": "Every field of the entry/manifest/legacy shapes is deleted, nulled or replaced by values of every kind (or same-kind adversarial content); all three codecs' decoders and, on success, every accessor/comparison/verification/re-encoding and a log built over the entry are exercised under recover(); a healthy signed chain naming the block must load completely. Thorough tier adds a 4-minute native fuzz campaign over raw bytes seeded with valid blocks and hostile constants. Exploration. Found and repaired two nil dereferences.",
        "note": "A block that decodes counts as an entry; panics on library goroutines are only attributable through the write-ahead case file.",
    },
    "C13": {
        "technique": "generated concurrent programs under (E1) a cooperative lock-aware scheduler driven by generated interleavings (build-tag hooks, exact deadlock detection) and (E2) free-running goroutines under the Go race detector",
        "text": "2-4 threads x 1-3 operations on one shared log (appends, merges in incl. invalid and bounded ones, all read accessors, publication, identity change): E1 explores interleavings at every lock boundary and inside critical sections and checks append chain / completion order / per-read structural clauses / final model equality; E2 runs the same programs with -race. Exploration; E2 is statistical. Found and repaired three data races.",
        "note": "Hook granularity bounds E1; the race detector only sees executions that happened.",
    },
    "C14": {
        "technique": "generated concurrent multi-log programs under the cooperative scheduler (exact deadlock detection, per-unlock structural invariant, snapshot-linearisation oracle) and free-running under -race with a lock-aware watchdog",
        "text": "2-4 threads of X.Join(Y) / X.Append over 2-3 logs: at every write-unlock the log must be structurally sound and a Join's result must equal destination ∪ S for a state S the source really had during the call; no schedule may deadlock. Exploration. Found and repaired the cross-merge deadlock and the torn source snapshot.",
        "note": "Interleavings at hook granularity; states of the source are recorded at its write-unlocks.",
    },
    "C15": {
        "technique": "property-based testing (rapid): iterator output vs reference (descending reference sort of the registry's causal past, cut at the lower bound, first/last amount)",
        "text": "Generated forked logs and every option combination (multi LTE related or not, LT, unknown bounds, GTE/GT inside the range, amounts 0..size+3); exact comparison when the ordering is strict-total on the range, order-free clauses otherwise; channel must be closed on success; no panic. Exploration. Found and repaired three defects.",
        "note": "Reads 'down to the lower bound' as the ordering-based range (what traverse does); causal-descendant reading asserted as subset.",
    },
    "C16": {
        "technique": "property-based testing (rapid): bounded merge vs suffix of the reference linearisation of the union; twin replica for n >= total",
        "text": "Generated pairs of logs and bounds 0..total+3; result must be the last min(n,total) of the reference sort (exact when strict-total), heads the unreferenced among them, and n >= total identical to the unbounded merge of a twin; in a third of the cases the (windowed) log makes a second bounded merge, compared with a twin that made the same first merge and the unbounded second one; in a third of the cases another replica (or one that stopped earlier) makes a bounded merge from the windowed log, compared with a twin's unbounded merge. Exploration. Found and repaired the n > total panic.",
        "note": "Same trusted base as C01.",
    },
    "C17": {
        "technique": "property-based generation of histories + exhaustive enumeration of block-write prefixes (crash points) per history, with injected write failures; loads from truncated store views",
        "level": "fault_enumeration",
        "text": "For every generated history over one shared store, EVERY write prefix is checked for causal closure (entries name only earlier blocks, manifests only stored heads), every value ever returned (append hash, manifest CID) is loaded from the prefix that existed at return time and from later prefixes (all of them in the thorough tier) and must reproduce the state at that moment; injected write failures (of appends and of publications; single, in runs or as an outage; plain, timeout, deadline errors or a panic of the storage layer) must surface as errors and leave entries and heads unchanged - or return a value that is stored after all; half of the failed operations are repeated at once (publication again / same append by a twin replica); appends refused by an access controller although they reproduce a committed block must not disturb the store (the fake store models removals). Crash points are enumerated exhaustively per history; histories are generated.",
        "note": "Block writes are atomic in the fake store; replicas share one store as in the statement.",
    },
    "C18": {
        "technique": "property-based testing (rapid): stored bytes - and what the block's text fields carry under base64/hex - scanned for every binary/textual form of each link and for fragments of them (16 characters / 10 bytes); round-trip with same / absent / different keys",
        "text": "Generated link-encrypted entries and small logs: no form of any predecessor/reference/earlier block appears in the stored bytes and the block has no traversable links; same-key readers recover identical lists, verify, merge and load; no-key / other-key readers get no links. Exploration.",
        "note": "Leak detection is by substring and fragment search over a fixed list of encodings (raw, multihash, digest, hex, base32/36/58/64), in the block and in its base64/hex-decoded text fields.",
    },
    "C19": {
        "technique": "property-based testing (rapid): order laws checked on all pairs/triples of generated entry pools; sort checked as metamorphic relation over generated permutations",
        "text": "Generated-input exploration: every ordered pair and triple of rapid-generated pools of synthetic entries (equal/unequal times, ids with prefix relations, distinct hashes incl. distinct identifiers over one shared digest) is checked against irreflexivity, antisymmetry, transitivity, totality, causality (smaller time first), FWW == -LWW, and every sorter is checked to be deterministic over shuffles, a permutation of its input and ordered. Pure functions, so tens of thousands of pools per run; no proof of the laws for all inputs. A second job (race detector on) has 2-6 goroutines compare and sort 2-3 generated pools at the same time: every result must be the one the same call gives alone.",
        "note": "Assumes non-negative clock times <= 2^62 (Lamport times); trusts Go's sort.SliceStable and the harness's re-statement of the laws.",
    },
    "C20": {
        "technique": "stateful model-based property testing (rapid): generated create/get/has/reopen/burst/identity sequences over 1-3 keystores sharing a datastore vs a map model; signature relations verified with independent libp2p calls",
        "text": "Key presence and identity must agree with a map model across instances, reopen and LRU eviction (bursts of 130-300 keys); identities created twice are identical and their two signatures and entry signatures verify under the stated keys and messages. Exploration. Found and repaired HasKey's false negatives. A second job (race detector on) overlaps the operations for real: reader goroutines ask 1-2 keystores for keys created beforehand (3-200 of them) while writer goroutines create up to 450 more, so cache entries are evicted under the readers; every pre-existing key must be present and identical in every call.",
        "note": "Ids are datastore-key-normal; create only for absent ids.",
    },
}

for _pid in ("C06", "C07", "C08", "C15", "C18", "C19"):
    META[_pid]["technique"] += "; the thorough tier adds a native coverage-guided campaign (go test -fuzz) over the same generator and oracle, the fuzz input being the generator's bit stream (rapid.MakeFuzz)"
