# Property table for the driver. One or more jobs per property; each job is a
# test of a harness package run as a compiled test binary.
def _crdt(name, q, t):
    return {"jobs": [{"pkg": "crdt", "run": "^Test%s$" % name, "checks_quick": q, "checks_thorough": t, "shards_thorough": 16}]}


PROPS = {
    "C01": _crdt("C01", 2500, 3000),
    "C02": _crdt("C02", 2500, 3000),
    "C03": _crdt("C03", 2500, 3000),
    "C04": _crdt("C04", 3000, 4000),
    "C05": _crdt("C05", 1500, 2000),
    "C16": _crdt("C16", 3000, 4000),
    "C06": {"jobs": [{"pkg": "auth", "run": "^TestC06$", "checks_quick": 3000, "checks_thorough": 4000, "shards_thorough": 16, "wal": True}]},
    "C07": {"jobs": [{"pkg": "auth", "run": "^TestC07$", "checks_quick": 20000, "checks_thorough": 40000, "shards_thorough": 16}]},
    "C08": {"jobs": [{"pkg": "codec", "run": "^TestC08", "checks_quick": 20000, "checks_thorough": 40000, "shards_thorough": 8, "xproc": True}]},
    "C15": {"jobs": [{"pkg": "iter", "run": "^TestC15$", "checks_quick": 4000, "checks_thorough": 6000, "shards_thorough": 16}]},
    "C18": {"jobs": [{"pkg": "codec", "run": "^TestC18$", "checks_quick": 3000, "checks_thorough": 5000, "shards_thorough": 16}]},
    "C19": {"jobs": [{"pkg": "order", "run": "^TestC19$", "checks_quick": 60000, "checks_thorough": 150000, "shards_thorough": 16}]},
}

HOOK_COMMITS = []

# Manifest metadata per claimed property.
META = {
    "C19": {
        "technique": "property-based testing (rapid): order laws checked on all pairs/triples of generated entry pools; sort checked as metamorphic relation over generated permutations",
        "text": "Generated-input exploration: every ordered pair and triple of rapid-generated pools of synthetic entries (equal/unequal times, ids with prefix relations, distinct hashes) is checked against irreflexivity, antisymmetry, transitivity, totality, causality (smaller time first), FWW == -LWW, and every sorter is checked to be deterministic over shuffles, a permutation of its input and ordered. Pure functions, so tens of thousands of pools per run; no proof of the laws for all inputs.",
        "note": "Assumes non-negative clock times <= 2^62 (Lamport times); trusts Go's sort.SliceStable and the harness's re-statement of the laws.",
    },
}
