#!/bin/bash
# seedconfirm.sh ID : confirm a seeded defect in its scratch worktree $SEEDROOT/ID and store it under
# /verif/seeded/ID$SEEDSUFFIX (patch.diff + demonstration). Never touches /repo. Prints one summary line at the end:
#   CONFIRM <ID> build=ok suite=ok|FAIL demo_with=FAIL|ok demo_without=ok|FAIL
set -u
id=$1
root=${SEEDROOT:-/tmp/seed}
wt=$root/$id
out=/verif/seeded/$id${SEEDSUFFIX:-}
export GOFLAGS=-mod=mod GOPROXY=off GOSUMDB=off GOTOOLCHAIN=local
cd $wt || exit 3
git checkout -q -- go.mod go.sum 2>/dev/null
mkdir -p $out
git diff > $out/patch.diff
demo=$(git status --porcelain | grep '^??' | awk '{print $2}' | grep '_test.go$' | head -1)
[ -z "$demo" ] && { echo "CONFIRM $id no-demo-file"; exit 3; }
cp $demo $out/$(basename $demo)
demodir=./$(dirname $demo)
b=ok; s=ok; dw=?; dwo=?
go build ./... >/dev/null 2>&1 || b=FAIL
mv $demo $root/$id.demo.hold
go test -vet=off -count=1 ./... > $root/$id.suite.log 2>&1 || s=FAIL
mv $root/$id.demo.hold $demo
if go test -vet=off -count=1 -run 'TestSeedDemo|SeedDemo|Seed' $demodir > $root/$id.demo_with.log 2>&1; then dw=ok; else dw=FAIL; fi
git apply -R $out/patch.diff
if go test -vet=off -count=1 -run 'TestSeedDemo|SeedDemo|Seed' $demodir > $root/$id.demo_without.log 2>&1; then dwo=ok; else dwo=FAIL; fi
git apply $out/patch.diff
echo "CONFIRM $id build=$b suite=$s demo_with=$dw demo_without=$dwo lines=$(git diff --numstat | awk '{a+=$1+$2} END{print a}')"
