#!/usr/bin/env python3
"""mkmutant.py NAME FILE OLD NEW [FILE OLD NEW ...] : make mutants/NAME.diff from textual replacements in /repo (reverted afterwards)."""
import subprocess, sys, os
ROOT = os.path.dirname(os.path.dirname(os.path.abspath(__file__)))
name = sys.argv[1]
args = sys.argv[2:]
assert len(args) % 3 == 0
assert subprocess.run(["git", "-C", "/repo", "status", "--porcelain"], capture_output=True, text=True).stdout.strip() == "", "repo dirty"
try:
    for i in range(0, len(args), 3):
        f, old, new = args[i:i+3]
        p = os.path.join("/repo", f)
        s = open(p).read()
        assert s.count(old) == 1, "pattern count %d in %s: %r" % (s.count(old), f, old)
        open(p, "w").write(s.replace(old, new))
    d = subprocess.run(["git", "-C", "/repo", "diff"], capture_output=True, text=True).stdout
    open(os.path.join(ROOT, "mutants", name + ".diff"), "w").write(d)
    print("wrote mutants/%s.diff (%d lines)" % (name, d.count("\n")))
finally:
    subprocess.run(["git", "-C", "/repo", "checkout", "--", "."])
