#!/usr/bin/env python3
"""Regenerates /verif/MANIFEST.json from lib/props.py (claimed checks) and properties.jsonl."""
import json, os, sys
ROOT = os.path.dirname(os.path.dirname(os.path.abspath(__file__)))
sys.path.insert(0, os.path.join(ROOT, "lib"))
from props import PROPS, META, HOOK_COMMITS

all_ids = [json.loads(l)["id"] for l in open(os.path.join(ROOT, "properties.jsonl")) if l.strip()]
checks = []
na = []
for pid in all_ids:
    if pid in PROPS and pid in META:
        m = META[pid]
        checks.append({
            "property_id": pid,
            "quick_cmd": "./check %s --tier quick" % pid,
            "thorough_cmd": "./check %s --tier thorough" % pid,
            "evidence_file": "evidence/%s.json" % pid,
            "replay_cmd_template": "./check %s --replay {path}" % pid,
            "engine": m.get("engine", "rapid-harness"),
            "level_claimed": {"category": m.get("level", "exploration"), "text": m["text"], "design_ref": m.get("design_ref", "DESIGN.md section 4, " + pid)},
            "level_note": m["note"],
            "technique": m["technique"],
        })
    else:
        na.append({"property_id": pid, "reason": META.get(pid, {}).get("na", "check not built yet in this session (planned: property-based check per DESIGN.md section 4)")})
man = {
    "version": 1,
    "setup_cmd": "./check --setup",
    "hooks": {
        "guard": "verif",
        "enable": "go test -c -tags verif (the harness module replaces berty.tech/go-ipfs-log by /repo, so every check rebuilds from /repo's working tree with the tag on)",
        "baseline_off_cmd": "cd /repo && GOFLAGS=-mod=mod GOPROXY=off GOSUMDB=off GOTOOLCHAIN=local go test -json -vet=off -count=1 -timeout 25m ./...",
        "source_commits": HOOK_COMMITS,
        "add_only": True,
    },
    "engines": [
        {"name": "rapid-harness", "path": "harness/", "serves_properties": [c["property_id"] for c in checks],
         "kind_free_text": "Go module with pgregory.net/rapid v1.3.0 property tests (program-first generation, shrinking, JSON replay), an in-memory IPFS DAG store owned by the harness (fault injection, gated reads, write-prefix views), reference models, plus native go fuzz targets; driven by ./check (python3)."},
    ],
    "checks": checks,
    "not_applicable": na,
    "notes": "All checks are property-based tests / fuzzing (exploration or fault_enumeration level). Exit codes: 0 held, 1 VIOLATION, 2 inconclusive (build failure/timeout).",
}
json.dump(man, open(os.path.join(ROOT, "MANIFEST.json"), "w"), indent=1)
print("claimed:", [c["property_id"] for c in checks])
print("not_applicable:", [n["property_id"] for n in na])
