#!/bin/bash
# seedrun.sh NAME PROP [PROP...] : run the checks PROP... against the stored patch seeded/NAME/patch.diff (or a
# mutants/*.diff path) on scratch copies of /repo (clone of HEAD + patch) and /verif (working tree as it is now), under
# /tmp/seedrun/NAME; removes them afterwards. /repo is never touched, so several of these can run at once.
set -u
name=$1; shift
V=/verif
patch=$V/seeded/$name/patch.diff
[ -f "$name" ] && { patch=$(realpath $name); name=$(basename $name .diff); }
R=/tmp/seedrun/$name
rm -rf $R; mkdir -p $R
trap 'rm -rf $R' EXIT
git clone -q /repo $R/repo || exit 3
git -C $R/repo apply $patch || { echo "$name -> NOAPPLY"; exit 3; }
rsync -a --exclude .git --exclude .work --exclude replays --exclude evidence $V/ $R/verif/
mkdir -p $R/verif/replays $R/verif/evidence
cp -r $V/replays/known $R/verif/replays/ 2>/dev/null
cd $R/verif
for p in "$@"; do
  r=$(VERIF_REPO=$R/repo VERIF_NO_EVIDENCE=1 VERIF_SEED=${VERIF_SEED:-1} ./check $p --tier ${TIER:-quick} 2>$R/err.$p | grep -E "^(VIOLATION|OK|INCONCLUSIVE)" | head -1 | cut -c1-110)
  [ -z "$r" ] && r="(no verdict) $(tail -2 $R/err.$p | tr '\n' ' ' | cut -c1-200)"
  # keep the replay of a violation for inspection
  rp=$(echo "$r" | sed -n 's/.*replay=\([^ ]*\).*/\1/p')
  [ -n "$rp" ] && [ -f "$rp" ] && { mkdir -p /tmp/seedrun-replays; cp "$rp" /tmp/seedrun-replays/$name-$p.json; }
  echo "$name vs $p -> $r"
done
