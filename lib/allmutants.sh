#!/bin/bash
# allmutants.sh : run every hand-made mutant and every stored seed against the check of its property (quick tier).
cd "$(dirname "$0")/.."
for m in mutants/*.diff; do
  id=$(basename $m | cut -c1-3 | tr a-z A-Z)
  lib/runmutant.sh $m $id | tail -1
done
for d in seeded/*/; do
  id=$(python3 -c "import json;print(json.load(open('$d/meta.json'))['breaks_property'])")
  echo "$(basename $d) $(lib/runmutant.sh $d/patch.diff $id | tail -1)"
done
