#!/bin/bash
# regress_rounds.sh SUFFIX... : run the check of each stored seed of the given rounds (e.g. -r12 -r13) against it, four at
# a time, on scratch copies (lib/seedrun.sh). One line per seed on stdout.
cd "$(dirname "$0")/.."
list=()
for suf in "$@"; do for d in seeded/*$suf; do [ -f $d/meta.json ] && list+=("$(basename $d)"); done; done
printf '%s\n' "${list[@]}" | xargs -P 4 -I{} bash -c 'p=$(python3 -c "import json;print(json.load(open(\"seeded/{}/meta.json\"))[\"breaks_property\"])"); lib/seedrun.sh {} $p 2>&1 | tail -1'
