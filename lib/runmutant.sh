#!/bin/bash
# runmutant.sh PATCH [--tests] PROP... : apply PATCH to /repo, (optionally run the baseline suite), run quick checks, revert.
set -u
patch=$(realpath $1); shift
tests=0
if [ "${1:-}" = "--tests" ]; then tests=1; shift; fi
cd /verif
if [ -n "$(git -C /repo status --porcelain)" ]; then echo "repo dirty"; exit 3; fi
trap 'git -C /repo checkout -- . ; git -C /repo clean -fdq' EXIT
git -C /repo apply "$patch" || { echo "patch does not apply"; exit 3; }
export GOFLAGS=-mod=mod GOPROXY=off GOSUMDB=off GOTOOLCHAIN=local
if [ $tests = 1 ]; then
  (cd /repo && go build ./... && go test -vet=off -count=1 ./... 2>&1 | tail -5)
fi
for p in "$@"; do
  out=$(VERIF_NO_EVIDENCE=1 ./check $p --tier ${TIER:-quick} 2>/dev/null | grep -E "^(VIOLATION|OK|INCONCLUSIVE|KNOWN)" | head -3 | tr '\n' ' ')
  echo "$(basename $patch) $p -> $out"
done
