#!/bin/bash
# allmutants_par.sh [N] : like allmutants.sh, but on N (default 4) scratch clones of /repo and /verif under
# /tmp/mut, so that /repo itself is never patched and other checks can run meanwhile. Results: /tmp/mut/result.txt
# (one line per patch: "<name> <property> -> VIOLATION...|OK...|INCONCLUSIVE..."). Removes the clones at the end.
set -u
N=${1:-4}
ROOT=/tmp/mut
rm -rf $ROOT; mkdir -p $ROOT
cd "$(dirname "$0")/.."
V=$(pwd)
list=$ROOT/list.txt
for m in mutants/*.diff; do
  echo "$m $(basename $m | cut -c1-3 | tr a-z A-Z) $(basename $m)" >> $list
done
for d in seeded/*/; do
  id=$(python3 -c "import json;print(json.load(open('$d/meta.json'))['breaks_property'])")
  echo "${d}patch.diff $id $(basename $d)" >> $list
done
export GOFLAGS=-mod=mod GOPROXY=off GOSUMDB=off GOTOOLCHAIN=local
for k in $(seq 1 $N); do
  git clone -q /repo $ROOT/$k/repo
  git clone -q $V $ROOT/$k/verif
  (
    i=0
    while read patch id name; do
      i=$((i+1))
      [ $((i % N)) -eq $((k % N)) ] || continue
      cd $ROOT/$k/repo && git checkout -q -- . && git clean -fdq
      if ! git apply $V/$patch 2>/dev/null; then echo "$name $id -> NOAPPLY" >> $ROOT/result.txt; continue; fi
      cd $ROOT/$k/verif
      out=$(VERIF_REPO=$ROOT/$k/repo VERIF_NO_EVIDENCE=1 ./check $id --tier quick 2>/dev/null | grep -E "^(VIOLATION|OK|INCONCLUSIVE)" | head -1 | cut -c1-90)
      echo "$name $id -> $out" >> $ROOT/result.txt
    done < $list
  ) &
done
wait
sort $ROOT/result.txt > $ROOT/result.sorted
echo "caught: $(grep -c VIOLATION $ROOT/result.sorted)  of $(wc -l < $list)"
grep -v VIOLATION $ROOT/result.sorted
cp $ROOT/result.sorted /tmp/allmutants.result
for k in $(seq 1 $N); do rm -rf $ROOT/$k; done
